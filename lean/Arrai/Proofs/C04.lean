/-
  C04 — the join family, nest/unnest and rank obey their relational definitions.

  Property theorems only (helper lemmas: Arrai/C04/Lemmas*.lean).
  Part 1: the specification — the eight operators on values do not depend on how rows are written, the
          seven other operators are projections of `<&>`, nest is lossless, unnest inverts nest.
  Part 2: the generic path (RelationAttrs + GenericJoin + combine) refines the specification.
  Part 3: `createMode` is total on the eight partitions and selects a strategy that computes the matched pairs.
  Part 4: the positional path (`Relation.Join` with its short-cuts and re-sugaring) refines the specification;
          both paths agree; `Joiner` refines the specification for every representation of the operands.
  Part 5: nest / unnest (`Reduce`) and rank refine their specifications.
-/
import Arrai.C04.LemmasUnnest

namespace Arrai.C04.Theorems
open Arrai.C04 Arrai.C04.Spec Arrai.C04.Impl

/-! ### Part 1 — the specification -/

/-- the specified join of two values depends only on the rows the values denote -/
theorem join_welldefined (op : JoinOp) (A B : List Tup) :
    Spec.join op (denRows A) (denRows B) = denRows (joinRows op A B) := join_denRows op A B

/-- `<->, -&-, ---, -&>, <&-, -->, <--` are the projections of `<&>` onto the attribute classes they keep,
for any headings (any of left-only, common, right-only may be empty) -/
theorem projections_of_join (op : JoinOp) (hA hB : Names) (A B : List Tup)
    (uA : Uniform hA A) (uB : Uniform hB B) :
    denRows (joinRows op A B) = denRows ((joinRows .join A B).map (restrict (keep op hA hB))) :=
  denRows_congr (projection_of_join op hA hB A B uA uB)

/-- `<&>` is exactly the set of merged tuples `t ∪ u` of agreeing pairs -/
theorem join_is_merge (A B : List Tup) (x : Tup) :
    x ∈ joinRows .join A B ↔ ∃ t ∈ A, ∃ u ∈ B,
      (∀ n v w, get n t = some v → get n u = some w → v = w) ∧ x = joined .join t u := by
  rw [mem_joinRows]
  constructor
  · rintro ⟨t, ht, u, hu, ha, e⟩; exact ⟨t, ht, u, hu, (agree_iff t u).1 ha, e⟩
  · rintro ⟨t, ht, u, hu, ha, e⟩; exact ⟨t, ht, u, hu, (agree_iff t u).2 ha, e⟩

/-- the merged tuple carries every attribute of both tuples -/
theorem joined_join_is_union (t u : Tup) (n : String) :
    get n (joined .join t u) = if has t n then get n t else get n u := by
  rw [joined_join_eqv_merge t u n, get_merge]

/-- nest loses no row: every row's nested part is a member of the group of its own key -/
theorem nest_lossless_covers (R : List Tup) (attrs : Names) (t : Tup) (ht : t ∈ R) :
    canonAttrs (restrict attrs.contains t) ∈ rowsOf (nestedOf R attrs t) := nest_covers R attrs t ht

/-- nest invents no row: every member of a group is the nested part of a row of `R` with that key -/
theorem nest_lossless_sound (R : List Tup) (attrs : Names) (t s : Tup)
    (hs : s ∈ rowsOf (nestedOf R attrs t)) :
    ∃ u ∈ R, keyOf attrs u = keyOf attrs t ∧ s = canonAttrs (restrict attrs.contains u) :=
  nest_sound R attrs t s hs

/-- the groups are disjoint on the key: rows with the same key get the same nested relation -/
theorem nest_lossless_disjoint (R : List Tup) (attrs : Names) (t t' : Tup)
    (h : keyOf attrs t = keyOf attrs t') : nestedOf R attrs t = nestedOf R attrs t' :=
  nest_key_functional R attrs t t' h

/-- unnest inverts nest (for any `attrs`, empty or the whole heading included), provided the new
attribute does not clash with an attribute that stays outside -/
theorem unnest_nest (R : List Tup) (attrs : Names) (n : String)
    (hn : ∀ t ∈ R, attrs.contains n = false → get n t = none) :
    Spec.unnest (Spec.nest (denRows R) attrs n) n = denRows R := by
  rw [nest_denRows, unnest_denRows]
  exact denRows_congr (unnest_nest_rows R attrs n hn)

example : ∃ R attrs n, R ≠ [] ∧ (∀ t ∈ R, attrs.contains n = false → get n t = none) ∧
    Spec.unnest (Spec.nest (denRows R) attrs n) n = denRows R :=
  ⟨[[("a", .num 1), ("b", .num 2)], [("a", .num 1), ("b", .num 3)]], ["b"], "n", by simp,
    by intro t ht _; simp at ht; rcases ht with rfl | rfl <;> rfl,
    unnest_nest _ _ _ (by intro t ht _; simp at ht; rcases ht with rfl | rfl <;> rfl)⟩

/-! ### Part 2 — the generic path -/

/-- `SetBuilder` (as modelled by `ofMembers`) denotes exactly the set of the canonical tuples added to it -/
theorem setBuilder_faithful (xs : List V) (h : ∀ x ∈ xs, CanonT x) : den (ofMembers xs) = V.mkSet xs :=
  den_ofMembers xs h

/-- RelationAttrs + GenericJoin + the eight combine closures: for well-formed operands of any representation
(relations, strings/arrays/bytes/dicts as binary relations, `true`, generic sets of tuples) the result
denotes the specified join; no `nil` tuple is ever added -/
theorem generic_path_refines (op : JoinOp) (a b : Rep) (aN bN : Names) (wa : RepWF a) (wb : RepWF b)
    (ha : relationAttrs a = some aN) (hb : relationAttrs b = some bN) :
    ∃ r, genericPath op a b = .ok r ∧ den r = Spec.join op (den a) (den b) :=
  genericPath_refines op a b aN bN wa wb ha hb

/-! ### Part 3 — createMode -/

/-- the Boolean table: for every operator and every emptiness pattern of (left-only, common, right-only)
`createMode` hits neither of its panics and selects a strategy whose side condition holds -/
theorem createMode_table (op : JoinOp) (ex ey ez : Bool) :
    ∃ m, modeB (flagsOf op ex ez) ex ey ez = some m ∧
      sideB (strategyOf m) (flagsOf op ex ez) ex ey ez = true := modeB_total op ex ey ez

/-- `createMode`, on the projectors `Relation.Join` derives from the partition of any of the eight operators
for any two headings, never panics and selects a strategy that computes the matched pairs -/
theorem createMode_total (A1 A2 : Names) (op : JoinOp) :
    ∃ m, createMode ((intersect A1 A2).map (idxOf A1)) ((intersect A1 A2).map (idxOf A2))
        ((partitionNames op A1 A2 (intersect A1 A2)).1.map (idxOf A1))
        ((partitionNames op A1 A2 (intersect A1 A2)).2.map (idxOf A2)) = .ok m ∧
      SideOK (strategyOf m) ((intersect A1 A2).map (idxOf A1)) ((intersect A1 A2).map (idxOf A2))
        ((partitionNames op A1 A2 (intersect A1 A2)).1.map (idxOf A1))
        ((partitionNames op A1 A2 (intersect A1 A2)).2.map (idxOf A2)) :=
  createMode_total_names A1 A2 op

/-- under the side condition of the selected strategy, `positionalRelation.Join` returns exactly the
projected matched pairs -/
theorem strategies_compute_matched (r r2 : List Row) (lk rk lo ro : Proj) (m : Mode)
    (hm : createMode lk rk lo ro = .ok m) (side : SideOK (strategyOf m) lk rk lo ro)
    (h1 : r ≠ []) (h2 : r2 ≠ [])
    (hw1 : ∀ v ∈ r, ∀ v' ∈ r, v.length = v'.length) (hw2 : ∀ v ∈ r2, ∀ v' ∈ r2, v.length = v'.length) :
    ∃ rows, posJoin r r2 lk rk lo ro = .ok rows ∧ ∀ x, x ∈ rows ↔ Matched r r2 lk rk lo ro x :=
  posJoin_mem r r2 lk rk lo ro m hm side h1 h2 hw1 hw2

/-! ### Part 4 — the positional path and Joiner -/

/-- `Relation.Join` (getIndices, compose, createMode, the five strategies, the empty / literal-true short-cuts
and the re-sugaring branch as repaired) refines the specification for every operator and all headings,
in any column order -/
theorem positional_path_refines (op : JoinOp) (r1 r2 : Relation) (w1 : RelWF r1) (w2 : RelWF r2) :
    ∃ res, relationJoin r1 r2 (intersect r1.attrs r2.attrs)
        (partitionNames op r1.attrs r2.attrs (intersect r1.attrs r2.attrs)).1
        (partitionNames op r1.attrs r2.attrs (intersect r1.attrs r2.attrs)).2 = .ok res ∧
      den res = Spec.join op (den (.relation r1)) (den (.relation r2)) ∧ RepOK res :=
  relationJoin_refines op r1 r2 w1 w2

/-- the positional and the generic path agree whenever both apply -/
theorem join_paths_agree (op : JoinOp) (r1 r2 : Relation) (w1 : RelWF r1) (w2 : RelWF r2) :
    ∃ r r', relationJoin r1 r2 (intersect r1.attrs r2.attrs)
        (partitionNames op r1.attrs r2.attrs (intersect r1.attrs r2.attrs)).1
        (partitionNames op r1.attrs r2.attrs (intersect r1.attrs r2.attrs)).2 = .ok r ∧
      genericPath op (.relation r1) (.relation r2) = .ok r' ∧ den r = den r' := by
  obtain ⟨r, hr, e, _⟩ := relationJoin_refines op r1 r2 w1 w2
  obtain ⟨r', hr', e'⟩ := genericPath_refines op (.relation r1) (.relation r2) r1.attrs r2.attrs w1 w2 rfl rfl
  exact ⟨r, r', hr, hr', by rw [e, e']⟩

/-- `A op B` for each of the eight operators: `Joiner` returns a value (never an error, never a panic) that
denotes the specified set, for well-formed operands of every representation; the result is again a
well-formed operand with a heading (`RepOK`), so the theorem chains through nested joins -/
theorem join_refines (op : JoinOp) (a b : Rep) (aN bN : Names) (wa : RepWF a) (wb : RepWF b)
    (ha : relationAttrs a = some aN) (hb : relationAttrs b = some bN) :
    ∃ res, joiner op a b = .ok res ∧ den res = Spec.join op (den a) (den b) ∧ RepOK res :=
  joiner_refines op a b aN bN wa wb ha hb

/-- two joins in a row, `(A op₁ B) op₂ C`, in one statement -/
theorem join_refines_chain (op1 op2 : JoinOp) (a b c : Rep) (ha : RepOK a) (hb : RepOK b) (hc : RepOK c) :
    ∃ r1 res, joiner op1 a b = .ok r1 ∧ joiner op2 r1 c = .ok res ∧
      den res = Spec.join op2 (Spec.join op1 (den a) (den b)) (den c) ∧ RepOK res := by
  obtain ⟨wa, aN, ea⟩ := ha
  obtain ⟨wb, bN, eb⟩ := hb
  obtain ⟨wc, cN, ec⟩ := hc
  obtain ⟨r1, h1, d1, w1, N1, e1⟩ := joiner_refines op1 a b aN bN wa wb ea eb
  obtain ⟨res, h2, d2, ok2⟩ := joiner_refines op2 r1 c N1 cN w1 wc e1 ec
  exact ⟨r1, res, h1, h2, by rw [d2, d1], ok2⟩

-- the hypotheses are satisfiable by a non-trivial pair (permuted columns, a sugar heading on the right)
example : ∃ r1 ps, RepWF (.relation r1) ∧ RepWF (.seq .item ps) ∧ r1.rows.length = 2 ∧ ps.length = 2 :=
  ⟨⟨["b", "@"], [0, 1], [[.num 1, .num 0], [.num 2, .num 1]]⟩, [(.num 0, .num 5), (.num 1, .num 6)],
    ⟨by decide, rfl, by intro row h; simp at h; rcases h with rfl | rfl <;> rfl, by simp⟩, trivial, rfl, rfl⟩

/-- the repaired defect: read through the left operand's projector (width 1) the re-sugaring loop of
`{|@| (0)} <&> {|@item| (5)}` indexes out of range; read through the output heading's projector it yields `[5]` -/
theorem resugar_left_projector_panics :
    resugar [0] ["@", "@item"] 0 1 [[.num 0, .num 5]] = .panic "Relation.Join: index out of range" ∧
    ∃ r, resugar [0, 1] ["@", "@item"] 0 1 [[.num 0, .num 5]] = .ok r ∧
      enumerate r = [V.mkTup [("@", .num 0), ("@item", .num 5)]] := by
  refine ⟨rfl, ?_⟩
  exact ⟨_, rfl, by
    show enumerate (ofMembers [V.mkTup [("@", .num 0), ("@item", .num 5)]]) = _
    rw [enumerate_ofMembers _ (by intro x hx; simp at hx; subst hx; exact canonT_mkTup _)]
    rfl⟩

/-! ### Part 5 — nest, unnest, rank -/

/-- `Nest` (nestWithFunc + Reduce) refines the specification: for a well-formed relation of any representation,
attributes inside the heading and a target name that does not clash -/
theorem nest_refines (a : Rep) (relAttrs attrs : Names) (attr : String) (wa : RepWF a)
    (ha : relationAttrs a = some relAttrs) (hsub : isSubset attrs relAttrs = true)
    (hclash : (minus relAttrs attrs).contains attr = false) :
    ∃ res, Impl.nest a relAttrs attrs attr = .ok res ∧ den res = Spec.nest (den a) attrs attr :=
  Arrai.C04.nest_refines a relAttrs attrs attr wa ha hsub hclash

/-- `R nest |attrs| n` and the inverse form `R nest ~|attrs| n` as evaluated (`NestExpr.Eval`, as repaired) -/
theorem nestExpr_refines (inverse : Bool) (a : Rep) (relAttrs attrs : Names) (attr : String) (wa : RepWF a)
    (ha : relationAttrs a = some relAttrs) (hsub : isSubset attrs relAttrs = true)
    (hne : inverse = true → (minus relAttrs attrs).isEmpty = false)
    (hclash : (minus relAttrs (if inverse then minus relAttrs attrs else attrs)).contains attr = false) :
    ∃ res, nestExpr inverse a attrs attr = .ok res ∧
      den res = Spec.nest (den a) (if inverse then minus relAttrs attrs else attrs) attr :=
  Arrai.C04.nestExpr_refines inverse a relAttrs attrs attr wa ha hsub hne hclash

/-- the ranking loop: after sorting by the key, every entry is given the number of entries with a strictly
smaller key -/
theorem rank_refines (es : List Entry) (attr : String) :
    ∀ e' ∈ rankPass es attr, ∃ e ∈ es, e'.ranker = e.ranker ∧
      e'.input = (attr, V.num (Int.ofNat (smallerCount es attr e))) :: e.input.filter (fun p => p.1 ≠ attr) :=
  Arrai.C04.rankPass_spec es attr

/-- ranking loses no entry -/
theorem rank_complete (es : List Entry) (attr : String) :
    (rankPass es attr).length = es.length := Arrai.C04.rankPass_length es attr

/-- several rank attributes `(r₁: .k₁, r₂: .k₂, …)`: the passes do not disturb one another — after all of them
every entry carries, for each `rᵢ`, the number of entries whose `kᵢ` is strictly smaller -/
theorem rank_refines_partial (es : List Entry) (rs : List String) :
    (rs.foldl rankPass es).length = es.length ∧
    ∀ e' ∈ rs.foldl rankPass es, ∃ e ∈ es, e'.ranker = e.ranker ∧
      e'.input = rankedInput es rs e.ranker e.input :=
  ⟨foldl_rankPass_length rs es, foldl_rankPass_spec es rs es (fun _ _ => rfl)⟩

/-- `R rank (r₁: .k₁, …)` on a representation (`Rank`: entries, one sorting pass per rank attribute, SetBuilder)
denotes the specification: every row gains, per `(r, k)`, the number of rows with a strictly smaller `k` -/
theorem rank_refines_rep (a : Rep) (relAttrs : Names) (keys : List (String × String)) (wa : RepWF a)
    (ha : relationAttrs a = some relAttrs) (hnd : (enumerate a).Nodup)
    (hkeys : ∀ rk ∈ keys, relAttrs.contains rk.2 = true) :
    ∃ res, Impl.rank a keys = .ok res ∧ den res = Spec.rank (den a) keys :=
  rank_rep_refines a relAttrs keys wa ha hnd hkeys

def rankWitness : V :=
  V.mkSet [V.mkTup [("x", .num 1), ("y", .num 0)], V.mkTup [("x", .num 1), ("y", .num 1)],
    V.mkTup [("x", .num 2), ("y", .num 1)], V.mkTup [("x", .num 3), ("y", .num 1)]]

/-- the documented example `{|x,y| (1,0), (1,1), (2,1), (3,1)} rank (r: .x)` (ranks 0, 0, 2, 3), and two
rank attributes at once -/
theorem rank_refines_witness :
    (∃ res, Impl.rank (ofV rankWitness) [("r", "x")] = .ok res ∧
      den res = Spec.rank rankWitness [("r", "x")]) ∧
    (∃ res, Impl.rank (ofV rankWitness) [("r", "x"), ("s", "y")] = .ok res ∧
      den res = Spec.rank rankWitness [("r", "x"), ("s", "y")]) := by
  refine ⟨⟨_, rfl, ?_⟩, ⟨_, rfl, ?_⟩⟩ <;> decide

/-- `R unnest attr` on a representation (`Unnest`: Reduce keyed by the whole tuple) denotes the specification,
for rows whose `attr` holds a set of tuples that merge with the rest of the row (anything else is an error
in the repaired code) -/
theorem unnest_refines (a : Rep) (relAttrs : Names) (attr : String) (wa : RepWF a)
    (ha : relationAttrs a = some relAttrs) (hattr : relAttrs.contains attr = true)
    (hu : Unnestable attr (enumerate a)) :
    ∃ res, Impl.unnest a attr = .ok res ∧ den res = Spec.unnest (den a) attr :=
  unnest_rep_refines a relAttrs attr wa ha hattr hu

def unnestWitness : V :=
  V.mkSet [V.mkTup [("a", .num 1), ("n", V.mkSet [V.mkTup [("b", .num 2)], V.mkTup [("b", .num 3)]])],
    V.mkTup [("a", .num 2), ("n", V.mkSet [])]]

/-- `{|a,n| (1, {|b| (2), (3)}), (2, {})} unnest n`, and unnest after the transliterated nest -/
theorem unnest_refines_witness :
    (∃ res, Impl.unnestExpr (ofV unnestWitness) "n" = .ok res ∧ den res = Spec.unnest unnestWitness "n") ∧
    (∃ r res, Impl.nestExpr false (ofV rankWitness) ["y"] "n" = .ok r ∧ Impl.unnestExpr r "n" = .ok res ∧
      den res = rankWitness) := by
  refine ⟨⟨_, rfl, ?_⟩, ⟨_, _, rfl, rfl, ?_⟩⟩ <;> decide

/-- `R nest a` (`SingleAttrNest`) denotes the specification: the values of `a`, grouped by the other attributes -/
theorem singleNest_refines (a : Rep) (relAttrs : Names) (attr : String) (wa : RepWF a)
    (ha : relationAttrs a = some relAttrs) (hattr : relAttrs.contains attr = true) :
    ∃ res, Impl.singleAttrNest a relAttrs attr = .ok res ∧ den res = Spec.singleNest (den a) attr :=
  singleNest_rep_refines a relAttrs attr wa ha hattr

/-- `{|x,y| …} nest y` and the inverse form `nest ~|x|n` -/
theorem singleNest_refines_witness :
    (∃ res, Impl.singleNestExpr (ofV rankWitness) "y" = .ok res ∧ den res = Spec.singleNest rankWitness "y") ∧
    (∃ res, Impl.nestExpr true (ofV rankWitness) ["x"] "n" = .ok res ∧ den res = Spec.nest rankWitness ["y"] "n") := by
  refine ⟨⟨_, rfl, ?_⟩, ⟨_, rfl, ?_⟩⟩ <;> decide

/-- a chained join with permuted columns, `({|b| (1)} <&> {|a| (2)}) <&> {|a,c| (2,3)}`: the intermediate
result has heading `[b, a]`, is well-formed, and the final result denotes the specified value -/
theorem join_chain_witness :
    ∃ r1 res, joiner .join (ofV (V.mkSet [V.mkTup [("b", .num 1)]])) (ofV (V.mkSet [V.mkTup [("a", .num 2)]]))
        = .ok (.relation r1) ∧ r1.attrs = ["b", "a"] ∧
      joiner .join (.relation r1) (ofV (V.mkSet [V.mkTup [("a", .num 2), ("c", .num 3)]])) = .ok res ∧
      den res = V.mkSet [V.mkTup [("a", .num 2), ("b", .num 1), ("c", .num 3)]] := by
  refine ⟨_, _, rfl, rfl, rfl, ?_⟩
  decide

end Arrai.C04.Theorems
