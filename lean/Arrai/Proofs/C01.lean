/-
  C01 — set algebra is exact for every mix of value representations.

  Property theorems only (helper lemmas: Arrai/C01/{Lemmas,Contracts,Ops}.lean).
  Part 1: the specification is finite-set algebra: every operator of `Spec` has exactly the textbook
          members and returns a canonical (strictly sorted) set, so `=` on results is set equality.
  Part 2: keyed sequences (String / Bytes / Array share one library over `List (Option α)` + offset).
  Part 3: per representation, the interface contract: the enumeration lists exactly the members,
          pairwise distinct and all of the representation's own kind; Has / Count / IsTrue / Where
          refine membership / cardinality / non-emptiness / filter and return well-formed values.
  Part 4: the operators of rel/ops_set.go, proved from the contracts for every mix of representations.
  Part 5: the known-finding classes are real: the full-strength statements fail on a witness.
-/
import Arrai.C01.Ops

namespace Arrai.C01.Theorems
open Arrai Arrai.C01 Arrai.FinSet KSeq

/-! ### Part 1 — the specification is finite-set algebra -/

theorem spec_union_exact (a b : List V) (x : V) : x ∈ FinSet.union a b ↔ x ∈ a ∨ x ∈ b := FinSet.mem_union a b x
theorem spec_inter_exact (a b : List V) (x : V) : x ∈ FinSet.inter a b ↔ x ∈ a ∧ x ∈ b := FinSet.mem_inter a b x
theorem spec_diff_exact (a b : List V) (x : V) : x ∈ FinSet.diff a b ↔ x ∈ a ∧ x ∉ b := FinSet.mem_diff a b x
theorem spec_symdiff_exact (a b : List V) (x : V) :
    x ∈ FinSet.symdiff a b ↔ (x ∈ a ∧ x ∉ b) ∨ (x ∈ b ∧ x ∉ a) := FinSet.mem_symdiff a b x
theorem spec_with_exact (a : List V) (v x : V) : x ∈ FinSet.ins v a ↔ x = v ∨ x ∈ a := FinSet.mem_ins v x a
theorem spec_without_exact (a : List V) (v x : V) : x ∈ FinSet.erase a v ↔ x ∈ a ∧ x ≠ v := FinSet.mem_erase a v x
theorem spec_where_exact (p : V → Bool) (a : List V) (x : V) : x ∈ FS.filter p a ↔ x ∈ a ∧ p x = true :=
  FS.mem_filter p a x
theorem spec_darrow_exact (f : V → V) (a : List V) (x : V) : x ∈ FS.image f a ↔ ∃ y, y ∈ a ∧ f y = x :=
  FS.mem_image f a x
/-- `^a` holds exactly the (canonical) subsets of `a` -/
theorem spec_powerset_exact (a : List V) (ha : Sorted a) (s : V) :
    s ∈ FS.powerset a ↔ ∃ l, s = V.set l ∧ Sorted l ∧ ∀ x, x ∈ l → x ∈ a := FS.mem_powerset a ha s
theorem spec_subset_exact (a b : List V) : FinSet.subset a b = true ↔ ∀ x, x ∈ a → x ∈ b := FinSet.subset_iff a b
theorem spec_ssubset_exact (a b : List V) :
    FS.ssubset a b = true ↔ (∀ x, x ∈ a → x ∈ b) ∧ ∃ y, y ∈ b ∧ y ∉ a := FS.ssubset_iff a b

/-- results are canonical: strictly sorted, hence determined by their members -/
theorem spec_results_canonical (a b : List V) (ha : Sorted a) (hb : Sorted b) (v : V) (p : V → Bool) (f : V → V) :
    Sorted (FinSet.union a b) ∧ Sorted (FinSet.inter a b) ∧ Sorted (FinSet.diff a b) ∧
    Sorted (FinSet.symdiff a b) ∧ Sorted (FinSet.ins v a) ∧ Sorted (FinSet.erase a v) ∧
    Sorted (FS.filter p a) ∧ Sorted (FS.image f a) ∧ Sorted (FS.powerset a) :=
  ⟨FinSet.sorted_union a b hb, FinSet.sorted_inter a b ha, FinSet.sorted_diff a b ha,
   FinSet.sorted_symdiff a b hb, FinSet.sorted_ins v a ha, FinSet.sorted_erase a v ha,
   FS.sorted_filter p a ha, FS.sorted_image f a, FS.sorted_powerset a⟩

/-- canonical sets with the same members are equal: `=` on results *is* set equality -/
theorem spec_extensional (a b : List V) (ha : Sorted a) (hb : Sorted b) (h : ∀ x, x ∈ a ↔ x ∈ b) : a = b :=
  FinSet.sorted_ext a b ha hb h

/-- `with` adds one to the count exactly for a new member -/
theorem spec_count_with (a : List V) (ha : Sorted a) (v : V) :
    FinSet.card (FinSet.ins v a) = if v ∈ a then FinSet.card a else FinSet.card a + 1 := FinSet.card_ins v a ha

/-! ### Part 2 — keyed sequences -/

/-- a keyed sequence denotes the pairs (index, element) of its filled slots -/
theorem kseq_members {α : Type} (vs : List (Option α)) (off i : Int) (x : α) :
    (i, x) ∈ kden vs off ↔ off ≤ i ∧ kget vs (i - off).toNat = some x := mem_kden vs off i x

theorem kseq_enumeration_increasing {α : Type} (vs : List (Option α)) (off : Int) :
    (kden vs off).Pairwise (fun p q => p.1 < q.1) := kden_pairwise vs off

theorem kseq_count {α : Type} (vs : List (Option α)) (off : Int) :
    (kden vs off).length = kcount vs ∧ kcount vs + kholes vs = vs.length :=
  ⟨length_kden vs off, kcount_add_kholes vs⟩

theorem kseq_trim_keeps_members {α : Type} (vs : List (Option α)) (off : Int) :
    kden (trimFront vs off).1 (trimFront vs off).2 = kden vs off ∧ kden (trimBack vs) off = kden vs off :=
  ⟨kden_trimFront vs off, kden_trimBack vs off⟩

/-- `asString`/`asArray`/`asBytes` slice: exactly the pairs given, when no index is claimed twice -/
theorem kseq_build_exact {α : Type} (ps : List (Int × α)) (hf : Functional ps) (i : Int) (x : α) :
    (i, x) ∈ kden (build ps).1 (build ps).2 ↔ (i, x) ∈ ps := mem_kden_build ps hf i x

/-! ### Part 3 — the interface contract of every representation -/

/-- every member a representation enumerates is of the representation's own kind (bucket) -/
theorem members_of_own_kind (p : Plain) (h : p.WF) : ∀ x, x ∈ p.members → bucketOf x = p.bucket :=
  Plain.members_bucket p h

/-- no member is enumerated twice (all nine representations) -/
theorem members_distinct (r : Rep) (h : r.WF) : r.members.Nodup := Rep.members_nodup r h

/-- `Has` is membership in the denoted set (all nine representations) -/
theorem has_refines (r : Rep) (h : r.WF) (v : V) : r.has v = true ↔ v ∈ r.den := Rep.has_iff_den r h v

/-- `Count` is the number of distinct members (all nine representations) -/
theorem count_eq_card (r : Rep) (h : r.WF) : r.count = FinSet.card r.den := Rep.count_eq_card r h

theorem isTrue_refines (r : Rep) (h : r.WF) : r.isTrue = true ↔ r.members ≠ [] := Rep.isTrue_iff r h

/-- `Where` keeps exactly the members that satisfy the predicate and re-establishes the invariant
(byte arrays: provided the kept bytes are contiguous — KF-bytes-holes) -/
theorem where_refines_partial (p : Plain) (h : p.WF) (f : V → Bool) (ha : FilterAdm p f) :
    (p.filter f).WF ∧ ∀ v, v ∈ (p.filter f).members ↔ v ∈ p.members ∧ f v = true :=
  ⟨(Plain.filter_spec p h f ha).1, (Plain.filter_spec p h f ha).2.1⟩

/-- the builders behind the SetBuilder buckets -/
theorem asString_exact (ps : List (Int × Nat)) (hne : ps ≠ []) (hf : Functional ps)
    (hr : ∀ p, p ∈ ps → (p.2 : Int) ≤ maxRune) :
    (asString ps).WF ∧ ∀ v, v ∈ (asString ps).members ↔ ∃ i c, v = charV i c ∧ (i, c) ∈ ps :=
  asString_spec ps hne hf hr

theorem asArray_exact (ps : List (Int × V)) (hf : Functional ps) :
    (asArray ps).WF ∧ ∀ v, v ∈ (asArray ps).members ↔ ∃ i x, v = itemV i x ∧ (i, x) ∈ ps := asArray_spec ps hf

theorem asBytes_exact_partial (ps : List (Int × Nat)) (hne : ps ≠ []) (hf : Functional ps)
    (hr : ∀ p, p ∈ ps → (p.2 : Int) ≤ 255) (hg : NoGap ps) :
    (asBytes ps).WF ∧ ∀ v, v ∈ (asBytes ps).members ↔ ∃ i c, v = byteV i c ∧ (i, c) ∈ ps :=
  asBytes_spec ps hne hf hr hg

/-- `NewDict(true, …)` keeps every entry, several values per key included -/
theorem newDict_exact (vs : List V) (he : ∀ v, v ∈ vs → (asEntry v).isSome = true) :
    (newDict vs).WF ∧ ∀ v, v ∈ (newDict vs).members ↔ v ∈ vs := newDict_spec vs he

/-! ### Part 4 — the operators of rel/ops_set.go, for every mix of representations -/

theorem inter_refines_partial (a b : Rep) (ha : a.WF) (hb : b.WF) (hadm : InterAdm a b) :
    (inter a b).WF ∧ (inter a b).den = FinSet.inter a.den b.den := by
  obtain ⟨w1, w2⟩ := inter_spec a b ha hb hadm
  refine ⟨w1, ?_⟩
  apply FinSet.sorted_ext _ _ (FinSet.sorted_mk _) (FinSet.sorted_inter _ _ (FinSet.sorted_mk _))
  intro x
  simp only [FinSet.mem_inter, Rep.den, FinSet.mem_mk]
  exact w2 x

theorem diff_refines_partial (a b : Rep) (ha : a.WF) (hb : b.WF) (hadm : DiffAdm a b) :
    (diff a b).WF ∧ (diff a b).den = FinSet.diff a.den b.den := by
  obtain ⟨w1, w2⟩ := diff_spec a b ha hb hadm
  refine ⟨w1, ?_⟩
  apply FinSet.sorted_ext _ _ (FinSet.sorted_mk _) (FinSet.sorted_diff _ _ (FinSet.sorted_mk _))
  intro x
  simp only [FinSet.mem_diff, Rep.den, FinSet.mem_mk]
  exact w2 x

end Arrai.C01.Theorems
