/-
  C01 — set algebra is exact for every mix of value representations.

  Property theorems only (helper lemmas: Arrai/C01/{Lemmas,Contracts,Ops,Builder,With,Union,PowerSet,Programs}.lean).
  Part 1: the specification is finite-set algebra: every operator of `Spec` has exactly the textbook
          members and returns a canonical (strictly sorted) set, so `=` on results is set equality.
  Part 2: keyed sequences (String / Bytes / Array share one library over `List (Option α)` + offset).
  Part 3: per representation, the interface contract: the enumeration lists exactly the members,
          pairwise distinct and all of the representation's own kind; Has / Count / IsTrue / Where
          refine membership / cardinality / non-emptiness / filter and return well-formed values.
  Part 4: the operators of rel/ops_set.go, proved from the contracts for every mix of representations.
  Part 5: the known-finding classes are real: the full-strength statements fail on a witness.
-/
import Arrai.C01.Programs

namespace Arrai.C01.Theorems
open Arrai Arrai.C01 Arrai.FinSet KSeq

/-! ### Part 1 — the specification is finite-set algebra -/

theorem spec_union_exact (a b : List V) (x : V) : x ∈ FinSet.union a b ↔ x ∈ a ∨ x ∈ b := FinSet.mem_union a b x
theorem spec_inter_exact (a b : List V) (x : V) : x ∈ FinSet.inter a b ↔ x ∈ a ∧ x ∈ b := FinSet.mem_inter a b x
theorem spec_diff_exact (a b : List V) (x : V) : x ∈ FinSet.diff a b ↔ x ∈ a ∧ x ∉ b := FinSet.mem_diff a b x
theorem spec_symdiff_exact (a b : List V) (x : V) :
    x ∈ FinSet.symdiff a b ↔ (x ∈ a ∧ x ∉ b) ∨ (x ∈ b ∧ x ∉ a) := FinSet.mem_symdiff a b x
theorem spec_with_exact (a : List V) (v x : V) : x ∈ FinSet.ins v a ↔ x = v ∨ x ∈ a := FinSet.mem_ins v x a
theorem spec_without_exact (a : List V) (v x : V) : x ∈ FinSet.erase a v ↔ x ∈ a ∧ x ≠ v := FinSet.mem_erase a v x
theorem spec_where_exact (p : V → Bool) (a : List V) (x : V) : x ∈ FS.filter p a ↔ x ∈ a ∧ p x = true :=
  FS.mem_filter p a x
theorem spec_darrow_exact (f : V → V) (a : List V) (x : V) : x ∈ FS.image f a ↔ ∃ y, y ∈ a ∧ f y = x :=
  FS.mem_image f a x
/-- `^a` holds exactly the (canonical) subsets of `a` -/
theorem spec_powerset_exact (a : List V) (ha : Sorted a) (s : V) :
    s ∈ FS.powerset a ↔ ∃ l, s = V.set l ∧ Sorted l ∧ ∀ x, x ∈ l → x ∈ a := FS.mem_powerset a ha s
theorem spec_subset_exact (a b : List V) : FinSet.subset a b = true ↔ ∀ x, x ∈ a → x ∈ b := FinSet.subset_iff a b
theorem spec_ssubset_exact (a b : List V) :
    FS.ssubset a b = true ↔ (∀ x, x ∈ a → x ∈ b) ∧ ∃ y, y ∈ b ∧ y ∉ a := FS.ssubset_iff a b

/-- results are canonical: strictly sorted, hence determined by their members -/
theorem spec_results_canonical (a b : List V) (ha : Sorted a) (hb : Sorted b) (v : V) (p : V → Bool) (f : V → V) :
    Sorted (FinSet.union a b) ∧ Sorted (FinSet.inter a b) ∧ Sorted (FinSet.diff a b) ∧
    Sorted (FinSet.symdiff a b) ∧ Sorted (FinSet.ins v a) ∧ Sorted (FinSet.erase a v) ∧
    Sorted (FS.filter p a) ∧ Sorted (FS.image f a) ∧ Sorted (FS.powerset a) :=
  ⟨FinSet.sorted_union a b hb, FinSet.sorted_inter a b ha, FinSet.sorted_diff a b ha,
   FinSet.sorted_symdiff a b hb, FinSet.sorted_ins v a ha, FinSet.sorted_erase a v ha,
   FS.sorted_filter p a ha, FS.sorted_image f a, FS.sorted_powerset a⟩

/-- canonical sets with the same members are equal: `=` on results *is* set equality -/
theorem spec_extensional (a b : List V) (ha : Sorted a) (hb : Sorted b) (h : ∀ x, x ∈ a ↔ x ∈ b) : a = b :=
  FinSet.sorted_ext a b ha hb h

/-- `with` adds one to the count exactly for a new member -/
theorem spec_count_with (a : List V) (ha : Sorted a) (v : V) :
    FinSet.card (FinSet.ins v a) = if v ∈ a then FinSet.card a else FinSet.card a + 1 := FinSet.card_ins v a ha

/-! ### Part 2 — keyed sequences -/

/-- a keyed sequence denotes the pairs (index, element) of its filled slots -/
theorem kseq_members {α : Type} (vs : List (Option α)) (off i : Int) (x : α) :
    (i, x) ∈ kden vs off ↔ off ≤ i ∧ kget vs (i - off).toNat = some x := mem_kden vs off i x

theorem kseq_enumeration_increasing {α : Type} (vs : List (Option α)) (off : Int) :
    (kden vs off).Pairwise (fun p q => p.1 < q.1) := kden_pairwise vs off

theorem kseq_count {α : Type} (vs : List (Option α)) (off : Int) :
    (kden vs off).length = kcount vs ∧ kcount vs + kholes vs = vs.length :=
  ⟨length_kden vs off, kcount_add_kholes vs⟩

theorem kseq_trim_keeps_members {α : Type} (vs : List (Option α)) (off : Int) :
    kden (trimFront vs off).1 (trimFront vs off).2 = kden vs off ∧ kden (trimBack vs) off = kden vs off :=
  ⟨kden_trimFront vs off, kden_trimBack vs off⟩

/-- `asString`/`asArray`/`asBytes` slice: exactly the pairs given, when no index is claimed twice -/
theorem kseq_build_exact {α : Type} (ps : List (Int × α)) (hf : Functional ps) (i : Int) (x : α) :
    (i, x) ∈ kden (build ps).1 (build ps).2 ↔ (i, x) ∈ ps := mem_kden_build ps hf i x

/-! ### Part 3 — the interface contract of every representation -/

/-- every member a representation enumerates is of the representation's own kind (bucket) -/
theorem members_of_own_kind (p : Plain) (h : p.WF) : ∀ x, x ∈ p.members → bucketOf x = p.bucket :=
  Plain.members_bucket p h

/-- no member is enumerated twice (all nine representations) -/
theorem members_distinct (r : Rep) (h : r.WF) : r.members.Nodup := Rep.members_nodup r h

/-- `Has` is membership in the denoted set (all nine representations) -/
theorem has_refines (r : Rep) (h : r.WF) (v : V) : r.has v = true ↔ v ∈ r.den := Rep.has_iff_den r h v

/-- `Count` is the number of distinct members (all nine representations) -/
theorem count_eq_card (r : Rep) (h : r.WF) : r.count = FinSet.card r.den := Rep.count_eq_card r h

theorem isTrue_refines (r : Rep) (h : r.WF) : r.isTrue = true ↔ r.members ≠ [] := Rep.isTrue_iff r h

/-- `Where` keeps exactly the members that satisfy the predicate and re-establishes the invariant
(byte arrays: provided the kept bytes are contiguous — KF-bytes-holes) -/
theorem where_refines_partial (p : Plain) (h : p.WF) (f : V → Bool) (ha : FilterAdm p f) :
    (p.filter f).WF ∧ ∀ v, v ∈ (p.filter f).members ↔ v ∈ p.members ∧ f v = true :=
  ⟨(Plain.filter_spec p h f ha).1, (Plain.filter_spec p h f ha).2.1⟩

/-- the builders behind the SetBuilder buckets -/
theorem asString_exact (ps : List (Int × Nat)) (hne : ps ≠ []) (hf : Functional ps)
    (hr : ∀ p, p ∈ ps → (p.2 : Int) ≤ maxRune) :
    (asString ps).WF ∧ ∀ v, v ∈ (asString ps).members ↔ ∃ i c, v = charV i c ∧ (i, c) ∈ ps :=
  asString_spec ps hne hf hr

theorem asArray_exact (ps : List (Int × V)) (hf : Functional ps) :
    (asArray ps).WF ∧ ∀ v, v ∈ (asArray ps).members ↔ ∃ i x, v = itemV i x ∧ (i, x) ∈ ps := asArray_spec ps hf

theorem asBytes_exact_partial (ps : List (Int × Nat)) (hne : ps ≠ []) (hf : Functional ps)
    (hr : ∀ p, p ∈ ps → (p.2 : Int) ≤ 255) (hg : NoGap ps) :
    (asBytes ps).WF ∧ ∀ v, v ∈ (asBytes ps).members ↔ ∃ i c, v = byteV i c ∧ (i, c) ∈ ps :=
  asBytes_spec ps hne hf hr hg

/-- `NewDict(true, …)` keeps every entry, several values per key included -/
theorem newDict_exact (vs : List V) (he : ∀ v, v ∈ vs → (asEntry v).isSome = true) :
    (newDict vs).WF ∧ ∀ v, v ∈ (newDict vs).members ↔ v ∈ vs := newDict_spec vs he

/-! ### Part 4 — the operators of rel/ops_set.go, for every mix of representations -/

theorem inter_refines_partial (a b : Rep) (ha : a.WF) (hb : b.WF) (hadm : InterAdm a b) :
    (inter a b).WF ∧ (inter a b).den = FinSet.inter a.den b.den := by
  obtain ⟨w1, w2⟩ := inter_spec a b ha hb hadm
  refine ⟨w1, ?_⟩
  apply FinSet.sorted_ext _ _ (FinSet.sorted_mk _) (FinSet.sorted_inter _ _ (FinSet.sorted_mk _))
  intro x
  simp only [FinSet.mem_inter, Rep.den, FinSet.mem_mk]
  exact w2 x

theorem diff_refines_partial (a b : Rep) (ha : a.WF) (hb : b.WF) (hadm : DiffAdm a b) :
    (diff a b).WF ∧ (diff a b).den = FinSet.diff a.den b.den := by
  obtain ⟨w1, w2⟩ := diff_spec a b ha hb hadm
  refine ⟨w1, ?_⟩
  apply FinSet.sorted_ext _ _ (FinSet.sorted_mk _) (FinSet.sorted_diff _ _ (FinSet.sorted_mk _))
  intro x
  simp only [FinSet.mem_diff, Rep.den, FinSet.mem_mk]
  exact w2 x

/-- two descriptions with the same members denote the same canonical set -/
theorem den_eq_of_mem (r : Rep) (l : List V) (hl : Sorted l) (h : ∀ x, x ∈ r.members ↔ x ∈ l) : r.den = l :=
  FinSet.sorted_ext _ _ (FinSet.sorted_mk _) hl (fun x => by rw [Rep.mem_den]; exact h x)

/-- `SetBuilder.Finish`: exactly the values added, well-formed (every bucket routed to its own kind) -/
theorem finish_refines_partial (xs : List V) (hadm : FinishAdm xs) :
    (finish xs).WF ∧ (finish xs).den = FinSet.mk xs := by
  obtain ⟨w1, w2⟩ := finish_spec xs hadm
  exact ⟨w1, den_eq_of_mem _ _ (FinSet.sorted_mk _) (fun x => by rw [w2, FinSet.mem_mk])⟩

/-- `With` inserts exactly the given value (all nine representations) -/
theorem with_refines_partial (r : Rep) (h : r.WF) (hn : r.Norm) (v : V) (hadm : RepWithAdm r v) :
    ∃ r', r.with_ v = .ok r' ∧ r'.WF ∧ r'.den = FinSet.ins v r.den := by
  obtain ⟨r', e, w, m⟩ := Rep.with_spec r h hn v hadm
  refine ⟨r', e, w, den_eq_of_mem _ _ (FinSet.sorted_ins _ _ (FinSet.sorted_mk _)) ?_⟩
  intro x; rw [m, FinSet.mem_ins, Rep.mem_den]

/-- `Without` removes exactly the given value (all nine representations; the membership part holds
unconditionally, well-formedness unless a byte is removed from the middle of a byte array) -/
theorem without_refines_partial (r : Rep) (h : r.WF) (v : V) (hadm : RepWithoutAdm r v) :
    (r.without v).WF ∧ (r.without v).den = FinSet.erase r.den v := by
  obtain ⟨w, m⟩ := Rep.without_spec r h v hadm
  refine ⟨w, den_eq_of_mem _ _ (FinSet.sorted_erase _ _ (FinSet.sorted_mk _)) ?_⟩
  intro x; rw [m, FinSet.mem_erase, Rep.mem_den]

theorem union_refines_partial (a b : Rep) (ha : a.WF) (hb : b.WF) (hna : a.Norm) (hnb : b.Norm)
    (hadm : UnionAdm a b) :
    ∃ r, union a b = .ok r ∧ r.WF ∧ r.den = FinSet.union a.den b.den := by
  obtain ⟨r, e, w, m⟩ := union_spec a b ha hb hna hnb hadm
  refine ⟨r, e, w, den_eq_of_mem _ _ (FinSet.sorted_union _ _ (FinSet.sorted_mk _)) ?_⟩
  intro x; rw [m, FinSet.mem_union, Rep.mem_den, Rep.mem_den]

theorem symdiff_refines_partial (a b : Rep) (ha : a.WF) (hb : b.WF) (hna : a.Norm) (hnb : b.Norm)
    (hadm : SymdiffAdm a b) :
    ∃ r, symdiff a b = .ok r ∧ r.WF ∧ r.den = FinSet.symdiff a.den b.den := by
  obtain ⟨r, e, w, m⟩ := symdiff_spec a b ha hb hna hnb hadm
  refine ⟨r, e, w, den_eq_of_mem _ _ (FinSet.sorted_symdiff _ _ (FinSet.sorted_mk _)) ?_⟩
  intro x; rw [m, FinSet.mem_symdiff, Rep.mem_den, Rep.mem_den]

/-- the subset comparisons `(<) (<=) (<>) (<>=)` (and their mirror images and negations, which the
compiler builds from these four) are exact for every mix of representations -/
theorem subset_family (a b : Rep) (ha : a.WF) (hb : b.WF) :
    subsetI a b = FS.ssubset a.den b.den ∧ subsetOrEqualI a b = FinSet.subset a.den b.den ∧
    subsetOrSupersetI a b = Spec.comparable a.den b.den ∧
    subsetSupersetOrEqualI b a = (Spec.comparable a.den b.den || decide (a.den = b.den)) :=
  ⟨subsetI_eq a b ha hb, subsetOrEqualI_eq a b ha hb, subsetOrSupersetI_eq a b ha hb,
   subsetSupersetOrEqualI_eq a b ha hb⟩

/-- `Where` on any representation (UnionSets filter bucket by bucket and drop emptied buckets) -/
theorem where_rep_refines_partial (r : Rep) (h : r.WF) (f : V → Bool) (hadm : RepFilterAdm r f) :
    (r.filter f).WF ∧ (r.filter f).den = FS.filter f r.den := by
  obtain ⟨w, m⟩ := Rep.filter_spec r h f hadm
  refine ⟨w, den_eq_of_mem _ _ (FS.sorted_filter f _ (FinSet.sorted_mk _)) ?_⟩
  intro x; rw [m, FS.mem_filter, Rep.mem_den]

/-- `=>`: the images are collected through the SetBuilder: the result is the image of the set -/
theorem darrow_refines_partial (r : Rep) (f : V → V) (hadm : FinishAdm (r.members.map f)) :
    (finish (r.members.map f)).WF ∧ (finish (r.members.map f)).den = FS.image f r.den := by
  obtain ⟨w, e⟩ := finish_refines_partial _ hadm
  refine ⟨w, ?_⟩
  rw [e]
  apply mk_congr
  intro x
  simp only [List.mem_map, Rep.den, FinSet.mem_mk]

/-- `CanonicalSet` re-buckets a GenericSet without changing what it denotes -/
theorem canonicalSet_refines (r : Rep) (h : r.WF) : (canonicalSet r).WF ∧ (canonicalSet r).den = r.den := by
  obtain ⟨w, m⟩ := canonicalSet_spec r h
  exact ⟨w, mk_congr _ _ m⟩

/-- `PowerSet` of every representation (EmptySet, GenericSet through frozen.Powerset, every other one
through the loop `newSets.With(s.With(c))` / `Union(result, newSets)`) is the power set of the set
denoted, provided every subset built on the way is representable -/
theorem powerSet_refines_partial (r : Rep) (h : r.WF) (hadm : PowerAdm r.members) :
    ∃ r', powerSet r = .ok r' ∧ r'.WF ∧ r'.den = FS.powerset r.den := powerSet_spec r h hadm

/-- the same with the admissibility hypothesis replaced by the specification-level class predicates
of the known findings; what is not proved is only `¬isSuper ∧ ¬isBytesGap → PowerAdm` -/
def powerSet_full : Prop :=
  ∀ r : Rep, r.WF → ¬ isSuper (.set (FS.powerset r.den)) = true → ¬ isBytesGap (.set (FS.powerset r.den)) = true →
    ∃ r', powerSet r = .ok r' ∧ r'.den = FS.powerset r.den

/-- admissibility of one binary set operator on two evaluated operands -/
def BinAdm (op : BinOp) (a b : Rep) : Prop :=
  match op with
  | .union => UnionAdm a b
  | .inter => InterAdm a b
  | .diff => DiffAdm a b
  | .symdiff => SymdiffAdm a b
  | _ => True

/-- one operator step of the evaluator agrees with the specification: `| & &~ ~~` on two sets in any
representations return a well-formed representation of exactly the specified set -/
theorem binop_refines_partial (op : BinOp) (hop : op = .union ∨ op = .inter ∨ op = .diff ∨ op = .symdiff)
    (a b : Rep) (ha : a.WF) (hb : b.WF) (hna : a.Norm) (hnb : b.Norm) (hadm : BinAdm op a b) :
    ∃ r, Impl.binop op (.set a) (.set b) = .ok (.set r) ∧ r.WF ∧ Spec.binop op a.denV b.denV = .ok r.denV := by
  rcases hop with rfl | rfl | rfl | rfl
  · obtain ⟨r, e, w, d⟩ := union_refines_partial a b ha hb hna hnb hadm
    refine ⟨r, ?_, w, ?_⟩
    · show (union a b).map Impl.IV.set = _
      rw [e]; rfl
    · show Outcome.ok (V.set (FinSet.union a.den b.den)) = _
      rw [← d]; rfl
  · obtain ⟨w, d⟩ := inter_refines_partial a b ha hb hadm
    refine ⟨inter a b, rfl, w, ?_⟩
    show Outcome.ok (V.set (FinSet.inter a.den b.den)) = _
    rw [← d]; rfl
  · obtain ⟨w, d⟩ := diff_refines_partial a b ha hb hadm
    refine ⟨diff a b, rfl, w, ?_⟩
    show Outcome.ok (V.set (FinSet.diff a.den b.den)) = _
    rw [← d]; rfl
  · obtain ⟨r, e, w, d⟩ := symdiff_refines_partial a b ha hb hna hnb hadm
    refine ⟨r, ?_, w, ?_⟩
    · show (symdiff a b).map Impl.IV.set = _
      rw [e]; rfl
    · show Outcome.ok (V.set (FinSet.symdiff a.den b.den)) = _
      rw [← d]; rfl

/-- `a with v` / `a without v` as evaluated (the result of `without` is re-normalised with `IsTrue`) -/
theorem with_without_step_refines_partial (a : Rep) (ha : a.WF) (hna : a.Norm) (v : Impl.IV)
    (hw : RepWithAdm a v.toV) (hwo : RepWithoutAdm a v.toV) :
    (∃ r, Impl.binop .with_ (.set a) v = .ok (.set r) ∧ r.WF ∧ Spec.binop .with_ a.denV v.toV = .ok r.denV) ∧
    (∃ r, Impl.binop .without (.set a) v = .ok (.set r) ∧ r.WF ∧ Spec.binop .without a.denV v.toV = .ok r.denV) := by
  constructor
  · obtain ⟨r, e, w, d⟩ := with_refines_partial a ha hna v.toV hw
    refine ⟨r, ?_, w, ?_⟩
    · show (a.with_ v.toV).map Impl.IV.set = _
      rw [e]; rfl
    · show Outcome.ok (V.set (FinSet.ins v.toV a.den)) = _
      rw [← d]; rfl
  · obtain ⟨w, d⟩ := without_refines_partial a ha v.toV hwo
    refine ⟨Impl.normTrue (a.without v.toV), rfl, ?_, ?_⟩
    · unfold Impl.normTrue
      split
      · exact w
      · trivial
    · show Outcome.ok (V.set (FinSet.erase a.den v.toV)) = _
      rw [← d]
      unfold Impl.normTrue
      split
      · rfl
      · rename_i ht
        have hemp : (a.without v.toV).members = [] := by
          apply Classical.byContradiction
          intro hne
          exact ht ((Rep.isTrue_iff _ w).2 hne)
        show Outcome.ok (V.set (FinSet.mk (a.without v.toV).members)) =
          Outcome.ok (V.set (FinSet.mk (Rep.plain Plain.empty).members))
        rw [hemp]; rfl

/-- one operator step of the evaluator agrees with the specification (comparison operators) -/
theorem cmpop_refines (op : CmpOp) (a b : Rep) (ha : a.WF) (hb : b.WF)
    (hop : op ≠ .mem ∧ op ≠ .nmem) :
    Impl.cmpop op (.set a) (.set b) = Spec.cmpop op a.denV b.denV := by
  obtain ⟨h1, h2, h3, h4⟩ := subset_family a b ha hb
  obtain ⟨g1, g2, _, _⟩ := subset_family b a hb ha
  cases op with
  | mem => exact absurd rfl hop.1
  | nmem => exact absurd rfl hop.2
  | sub => show Outcome.ok (subsetI a b) = Outcome.ok (FS.ssubset a.den b.den); rw [h1]
  | sup => show Outcome.ok (subsetI b a) = Outcome.ok (FS.ssubset b.den a.den); rw [g1]
  | sube => show Outcome.ok (subsetOrEqualI a b) = Outcome.ok (FinSet.subset a.den b.den); rw [h2]
  | supe => show Outcome.ok (subsetOrEqualI b a) = Outcome.ok (FinSet.subset b.den a.den); rw [g2]
  | comp => show Outcome.ok (subsetOrSupersetI a b) = Outcome.ok (Spec.comparable a.den b.den); rw [h3]
  | compe =>
    show Outcome.ok (subsetSupersetOrEqualI b a) =
      Outcome.ok (Spec.comparable a.den b.den || decide (a.den = b.den))
    rw [h4]
  | nsub => show Outcome.ok (!subsetI a b) = Outcome.ok (!FS.ssubset a.den b.den); rw [h1]
  | nsup => show Outcome.ok (!subsetI b a) = Outcome.ok (!FS.ssubset b.den a.den); rw [g1]
  | nsube => show Outcome.ok (!subsetOrEqualI a b) = Outcome.ok (!FinSet.subset a.den b.den); rw [h2]
  | nsupe => show Outcome.ok (!subsetOrEqualI b a) = Outcome.ok (!FinSet.subset b.den a.den); rw [g2]
  | ncomp => show Outcome.ok (!subsetOrSupersetI a b) = Outcome.ok (!Spec.comparable a.den b.den); rw [h3]
  | ncompe =>
    show Outcome.ok (!subsetSupersetOrEqualI b a) =
      Outcome.ok (!(Spec.comparable a.den b.den || decide (a.den = b.den)))
    rw [h4]

/-- `x <: s` is membership -/
theorem mem_refines (b : Rep) (hb : b.WF) (v : Impl.IV) :
    Impl.cmpop .mem v (.set b) = Spec.cmpop .mem v.toV b.denV := by
  show Outcome.ok (b.has v.toV) = Outcome.ok (decide (v.toV ∈ b.den))
  congr 1
  rw [Bool.eq_iff_iff, Rep.has_iff_den b hb]
  simp

/-- literals are represented exactly and well-formedly -/
theorem literal_refines_partial (l : Lit) (h : LitAdm l) :
    IVOK (Impl.litIV l) ∧ (Impl.litIV l).toV = l.den := litIV_spec l h

/-- whole programs (operands produced by earlier operators, to any depth): along every admissible
evaluation, whenever the specification yields a value the evaluator on representations yields a
well-formed representation in normal form of exactly that value.  `Adm e` is the conjunction of the
step hypotheses met while evaluating `e`. -/
theorem programs_refine_partial (e : E) (h : Adm e) (v : V) (hs : Spec.eval e = .ok v) :
    ∃ iv, Impl.eval e = .ok iv ∧ IVOK iv ∧ iv.toV = v := eval_refines e h v hs

/-- hence the observable the check compares (canon of the value) agrees -/
theorem programs_observable_partial (e : E) (h : Adm e) (v : V) (hs : Spec.eval e = .ok v) :
    obsI (Impl.eval e) = obsV (Spec.eval e) := by
  obtain ⟨iv, e1, _, t⟩ := eval_refines e h v hs
  rw [e1, hs, ← t]; rfl

/-- the same with `Adm e` replaced by the generator's class predicate; what is not proved is only
`classOf e = "good" → Adm e` (and the error outcomes, where the order of evaluation of the members
would have to be related) -/
def programs_full : Prop :=
  ∀ e : E, classOf e = "good" → obsI (Impl.eval e) = obsV (Spec.eval e) ∨ Spec.eval e = .unspec

/-! ### Part 5 — the known-finding classes are real -/

/-- full-strength `With` (no admissibility hypothesis) … -/
def with_full : Prop :=
  ∀ (r : Rep) (v : V), r.WF → r.Norm → ∃ r', r.with_ v = .ok r' ∧ r'.WF ∧ r'.den = FinSet.ins v r.den

/-- … fails: an array cannot take a second item at an occupied index; the fall-back keeps the item
tuples in a GenericSet, which is not well-formed (KF-superimposed) -/
theorem with_full_false : ¬ with_full := by
  intro h
  obtain ⟨r', e, hw, _⟩ := h (.plain (.arr [some (.num 1)] 0 1)) (itemV 0 (.num 2)) rfl
    (Or.inr (by simp [Rep.members, Plain.members, kden]))
  have e2 : toUnionSetWithItem (newGenericSetFromSet (.arr [some (.num 1)] 0 1)) (itemV 0 (.num 2)) = .ok r' := by
    simpa [Rep.with_, Plain.with_, asItem_itemV, arrWithItem, kget] using e
  have hb : bucketOf (itemV 0 (.num 2)) ≠ (newGenericSetFromSet (.arr [some (.num 1)] 0 1)).bucket := by
    rw [bucketOf_itemV]; unfold newGenericSetFromSet; rw [fromFrozen_bucket]; intro hc; cases hc
  unfold toUnionSetWithItem at e2
  simp only [hb, if_false, Outcome.ok.injEq] at e2
  subst e2
  have hw' : BucketsWF [((newGenericSetFromSet (.arr [some (.num 1)] 0 1)).bucket,
      newGenericSetFromSet (.arr [some (.num 1)] 0 1)),
      (bucketOf (itemV 0 (.num 2)), single (itemV 0 (.num 2)))] := hw.1
  obtain ⟨gw, _, _⟩ := hw'.2 _ List.mem_cons_self
  have hm : itemV 0 (.num 1) ∈ (newGenericSetFromSet (.arr [some (.num 1)] 0 1)).members := by
    unfold newGenericSetFromSet
    rw [fromFrozen_members, FinSet.mem_mk]
    simp [Plain.members, kden]
  have hbk := Plain.members_bucket _ gw _ hm
  unfold newGenericSetFromSet at hbk
  rw [bucketOf_itemV, fromFrozen_bucket] at hbk
  cases hbk

/-- full-strength `Without` (well-formed result for every operand) … -/
def without_full : Prop := ∀ (r : Rep) (v : V), r.WF → (r.without v).WF

/-- … fails: removing a byte from the middle leaves a GenericSet of byte tuples (KF-bytes-holes) -/
theorem without_full_false : ¬ without_full := by
  intro h
  have hw : (Rep.plain (.bytes [1, 2, 3] 0)).WF := by
    refine ⟨by simp, ?_⟩
    intro x hx
    simp only [List.mem_cons, List.not_mem_nil, or_false] at hx
    rcases hx with rfl | rfl | rfl <;> decide
  have hwf := h _ (byteV 1 2) hw
  have hres : (Rep.plain (.bytes [1, 2, 3] 0)).without (byteV 1 2) =
      .plain (fromFrozen (FinSet.erase (FinSet.mk (Plain.bytes [1, 2, 3] 0).members) (byteV 1 2))) := by
    simp [Rep.without, Plain.without, bytesWithout, asByte_byteV 1 2 (by decide), seqIndex]
  rw [hres] at hwf
  have hm : byteV 0 1 ∈ (fromFrozen (FinSet.erase (FinSet.mk (Plain.bytes [1, 2, 3] 0).members) (byteV 1 2))).members := by
    rw [fromFrozen_members, FinSet.mem_erase, FinSet.mem_mk]
    refine ⟨by simp [Plain.members, kden], ?_⟩
    intro he
    have := (byteV_inj he).1
    omega
  have hb := Plain.members_bucket (fromFrozen (FinSet.erase (FinSet.mk (Plain.bytes [1, 2, 3] 0).members) (byteV 1 2))) hwf _ hm
  rw [fromFrozen_bucket, bucketOf_byteV 0 1 (by decide)] at hb
  cases hb

/-- full-strength `Finish` (no admissibility hypothesis) … -/
def finish_full : Prop := ∀ xs : List V, ∀ x, x ∈ (finish xs).members ↔ x ∈ xs

/-- … fails: of two chars at one index only the last one added survives (KF-superimposed) -/
theorem finish_full_false : ¬ finish_full := by
  intro h
  have h1 := (h [charV 0 97, charV 0 98] (charV 0 97)).2 (by simp)
  have hres : finish [charV 0 97, charV 0 98] = .plain (.str [some 98] 0 0) := by
    simp [finish, groupBuckets, addToBucket, bucketOf_charV 0 97 (by decide), bucketOf_charV 0 98 (by decide),
      finishGroups, finishBucket, fromBuckets, charPairs, asChar_charV 0 97 (by decide),
      asChar_charV 0 98 (by decide), asString, build, minAt, maxAt, fill, kholes]
  rw [hres] at h1
  simp only [Rep.members, Plain.members, kden, List.map_cons, List.map_nil, List.mem_singleton] at h1
  have := (charV_inj h1).2
  omega

/-- full-strength `Where` on a byte array … -/
def where_full : Prop :=
  ∀ (p : Plain) (f : V → Bool), p.WF → ∀ v, v ∈ (p.filter f).members ↔ v ∈ p.members ∧ f v = true

/-- … fails: the bytes kept around a rejected one are joined by a zero byte (KF-bytes-holes) -/
theorem where_full_false : ¬ where_full := by
  intro h
  have hw : (Plain.bytes [1, 2, 3] 0).WF := by
    refine ⟨by simp, ?_⟩
    intro x hx
    simp only [List.mem_cons, List.not_mem_nil, or_false] at hx
    rcases hx with rfl | rfl | rfl <;> decide
  have h1 := (h (.bytes [1, 2, 3] 0) (fun v => !decide (v = byteV 1 2)) hw (byteV 1 0)).1
  have hres : (Plain.bytes [1, 2, 3] 0).filter (fun v => !decide (v = byteV 1 2)) = .bytes [1, 0, 3] 0 := by
    have e1 : byteV 0 1 ≠ byteV 1 2 := fun he => by have := (byteV_inj he).1; omega
    have e3 : byteV 2 3 ≠ byteV 1 2 := fun he => by have := (byteV_inj he).1; omega
    simp [Plain.filter, Plain.members, kden, e1, e3, bytePairs, asByte_byteV 0 1 (by decide),
      asByte_byteV 2 3 (by decide), asBytes, build, minAt, maxAt, fill]
  rw [hres] at h1
  have := (h1 (by simp [Plain.members, kden])).1
  simp only [Plain.members, kden, List.map_cons, List.map_nil, List.mem_cons, List.not_mem_nil, or_false] at this
  rcases this with he | he | he <;> (have := byteV_inj he; omega)

/-! ### the hypotheses of the partial theorems are satisfiable by non-trivial values -/

/-- a well-formed sparse string, an admissible `with` into its hole, an admissible `without` -/
example : (Rep.plain (.str [some 97, none, some 99] 0 1)).WF ∧ (Rep.plain (.str [some 97, none, some 99] 0 1)).Norm ∧
    RepWithAdm (.plain (.str [some 97, none, some 99] 0 1)) (charV 1 98) ∧
    RepWithoutAdm (.plain (.str [some 97, none, some 99] 0 1)) (charV 0 97) := by
  refine ⟨⟨rfl, by simp [kcount], ?_⟩, Or.inr (by simp [Rep.members, Plain.members, kden]), ?_, trivial⟩
  · intro c hc
    simp only [List.mem_cons, Option.some.injEq, reduceCtorEq, List.not_mem_nil, or_false, false_or] at hc
    rcases hc with rfl | rfl <;> decide
  · intro ix c hc d hd
    obtain ⟨he, _⟩ := (asChar_eq_some _ ix c).1 hc
    obtain ⟨rfl, rfl⟩ := charV_inj he
    simp [kden] at hd

/-- a well-formed UnionSet of two buckets and a gap-free byte array -/
example : (Rep.union [(.generic, .generic [.num 1, .num 2]), (.bytesByte, .bytes [1, 2] 0)]).WF ∧
    FilterAdm (.bytes [1, 2] 0) (fun _ => true) := by
  refine ⟨⟨⟨by simp, ?_⟩, by simp⟩, ?_⟩
  · intro kp hm
    simp only [List.mem_cons, List.not_mem_nil, or_false] at hm
    rcases hm with rfl | rfl
    · refine ⟨⟨?_, by simp, by simp, ?_⟩, by simp [Plain.members], rfl⟩
      · apply List.pairwise_cons.2
        refine ⟨?_, by simp⟩
        intro x hx
        simp only [List.mem_singleton] at hx
        subst hx
        decide
      · intro x hx
        simp only [List.mem_cons, List.not_mem_nil, or_false] at hx
        rcases hx with rfl | rfl <;> rfl
    · refine ⟨⟨by simp, ?_⟩, by simp [Plain.members, kden], rfl⟩
      intro x hx
      simp only [List.mem_cons, List.not_mem_nil, or_false] at hx
      rcases hx with rfl | rfl <;> decide
  · have hl : bytePairs ((Plain.bytes [1, 2] 0).members.filter (fun _ => true)) = [(0, 1), (1, 2)] := by
      simp [Plain.members, kden, bytePairs, asByte_byteV 0 1 (by decide), asByte_byteV 1 2 (by decide)]
    show NoGap (bytePairs ((Plain.bytes [1, 2] 0).members.filter (fun _ => true)))
    rw [hl]
    rintro i ⟨p, q, hp, hq, h1, h2⟩
    simp only [List.mem_cons, List.not_mem_nil, or_false] at hp hq
    have hi : i = 0 ∨ i = 1 := by
      rcases hp with rfl | rfl <;> rcases hq with rfl | rfl <;> simp at h1 h2 <;> omega
    rcases hi with rfl | rfl
    · exact ⟨1, by simp⟩
    · exact ⟨2, by simp⟩

/-- an admissible nested program: `(({1} | {2}) count)` — the union of two evaluated literals, then
an operator applied to its result -/
example : Adm (.count (.bin .union (.lit (.set [.num 1])) (.lit (.set [.num 2])))) := by
  have hl : ∀ n : Int, LitAdm (.set [.num n]) := fun n => finishAdm_single (.num n)
  refine ⟨hl 1, hl 2, ?_⟩
  intro x y hx hy
  have ex : x = Impl.litIV (.set [.num 1]) := by cases hx; rfl
  have ey : y = Impl.litIV (.set [.num 2]) := by cases hy; rfl
  subst ex; subst ey
  obtain ⟨w1, m1⟩ := finish_spec [V.num 1] (finishAdm_single _)
  obtain ⟨w2, m2⟩ := finish_spec [V.num 2] (finishAdm_single _)
  obtain ⟨p, hp⟩ := plain_of_one_bucket _ w1 .generic (fun z hz => by
    have := (m1 z).1 hz; simp only [List.mem_singleton] at this; subst this; rfl)
  obtain ⟨q, hq⟩ := plain_of_one_bucket _ w2 .generic (fun z hz => by
    have := (m2 z).1 hz; simp only [List.mem_singleton] at this; subst this; rfl)
  show OpAdm .union (.set (finish [V.num 1])) (.set (finish [V.num 2]))
  rw [hp, hq]
  show WithAllAdm (.plain p) q.members
  apply withAllAdm_of_nontuples
  intro z hz
  have : z ∈ (finish [V.num 2]).members := by rw [hq]; exact hz
  have := (m2 z).1 this
  simp only [List.mem_singleton] at this
  exact Or.inl ⟨2, this⟩

end Arrai.C01.Theorems
