/-
  C06 — `<` is a strict total order consistent with `=`, and sorting follows it.

  Property theorems only (helper lemmas: Arrai/C06/{Lemmas,Embed,Clients,Den,Unique}.lean).  They are about
  `Impl.less` / `Impl.equal` of Arrai/C06/Model.lean — the transliteration of every `Less` method of
  /repo/rel as repaired — and hold for ALL representations `Rep` (no well-formedness hypothesis):
  numbers, generic and specialised tuples, `(@neg: x)` wrappers, every set representation, nested.

  Part 0: regenerated facts (kind numbers, operator table).
  Part 1: the order laws, via the embedding `less a b ↔ key a < key b` into the linear order `K`.
  Part 2: sorting clients — a strict total order has one sorted arrangement; orderby, rank, max/min,
          and the order in which sets are printed follow `less`.
  Part 3: the rules before the repairs violate trichotomy (witnesses).
-/
import Arrai.C06.Den
import Arrai.C06.Unique
import Arrai.Facts.Generated

namespace Arrai.C06.Theorems
open Arrai.C06 Arrai.C06.Impl

/-! ### Part 0 — regenerated facts -/

theorem kinds_table : Arrai.Facts.Generated.kinds = Expected.kinds := by decide

theorem compareOps_table : Arrai.Facts.Generated.c06_compareOps = Expected.compareOps := by decide

/-- the constants of the model are the regenerated kind numbers -/
theorem kind_constants :
    Expected.kindOf "numberKind" = kNumber ∧ Expected.kindOf "emptySetKind" = kEmpty ∧
    Expected.kindOf "trueSetKind" = kTrue ∧ Expected.kindOf "genericSetKind" = kGenericSet ∧
    Expected.kindOf "stringKind" = kString ∧ Expected.kindOf "bytesKind" = kBytes ∧
    Expected.kindOf "arrayKind" = kArray ∧ Expected.kindOf "dictKind" = kDict ∧
    Expected.kindOf "unionSetKind" = kUnion ∧ Expected.kindOf "relationKind" = kRelation ∧
    Expected.kindOf "genericTupleKind" = kGenericTuple ∧ Expected.kindOf "stringCharTupleKind" = kCharT ∧
    Expected.kindOf "arrayItemTupleKind" = kItemT ∧ Expected.kindOf "dictValueTupleKind" = kEntryT ∧
    Expected.kindOf "bytesByteTupleKind" = kByteT := by decide

/-- the kind numbers of the data fragment are pairwise distinct and positive -/
theorem kinds_distinct :
    ([kNumber, kEmpty, kTrue, kGenericSet, kString, kBytes, kArray, kDict, kUnion, kRelation, kGenericTuple,
      kCharT, kItemT, kEntryT, kByteT].Nodup) ∧
    ([kNumber, kEmpty, kTrue, kGenericSet, kString, kBytes, kArray, kDict, kUnion, kRelation, kGenericTuple,
      kCharT, kItemT, kEntryT, kByteT].all (fun k => decide (0 < k))) = true := by decide

/-- equal kinds are the same Go type: the type assertion after the kind test of every `Less` method holds -/
theorem kind_eq_same_type (a b : Rep) (h : kind a = kind b) : ctorId a = ctorId b := kind_eq_ctor h

/-! ### Part 1 — the order laws -/

/-- the order embedding: `a.Less(b)` is the strict order of the canonical keys -/
theorem less_iff_key_lt (a b : Rep) : less a b = K.lt (key a) (key b) := less_eq a b

/-- the fuel of `less` is immaterial: any number of unfoldings above the nesting depth gives the same answer -/
theorem less_fuel_stable (n : Nat) (a b : Rep) (ha : depth a < n) (hb : depth b < n) :
    lessN n a b = less a b := lessN_stable ha hb

theorem less_irrefl (a : Rep) : less a a = false := by
  rw [less_eq]; exact K.lt_irrefl _

theorem less_trans (a b c : Rep) (h₁ : less a b = true) (h₂ : less b c = true) : less a c = true := by
  rw [less_eq] at *; exact K.lt_trans h₁ h₂

theorem less_asymm (a b : Rep) (h : less a b = true) : less b a = false := by
  rw [less_eq] at *; exact K.lt_asymm h

/-- exactly one of `a < b`, `a = b`, `b < a` -/
theorem trichotomy (a b : Rep) :
    (less a b = true ∧ equal a b = false ∧ less b a = false) ∨
    (less a b = false ∧ equal a b = true ∧ less b a = false) ∨
    (less a b = false ∧ equal a b = false ∧ less b a = true) := by
  simp only [less_eq, equal]
  rcases K.trichotomy (key a) (key b) with h | h | h
  · exact Or.inl ⟨h.1, (K.beq_eq_false_iff _ _).2 h.2.1, h.2.2⟩
  · exact Or.inr (Or.inl ⟨h.1, by simpa [K.beq_iff] using h.2.1, h.2.2⟩)
  · exact Or.inr (Or.inr ⟨h.1, (K.beq_eq_false_iff _ _).2 h.2.1, h.2.2⟩)

theorem equal_refl (a : Rep) : equal a a = true := by simp [equal, K.beq_iff]
theorem equal_symm (a b : Rep) (h : equal a b = true) : equal b a = true := by
  simp only [equal, K.beq_iff] at *; exact h.symm
theorem equal_trans (a b c : Rep) (h₁ : equal a b = true) (h₂ : equal b c = true) : equal a c = true := by
  simp only [equal, K.beq_iff] at *; exact h₁.trans h₂

/-- `<` cannot tell equal values apart -/
theorem less_respects (a a' b b' : Rep) (ha : equal a a' = true) (hb : equal b b' = true) :
    less a b = less a' b' := by
  simp only [equal, K.beq_iff] at ha hb
  rw [less_eq, less_eq, ha, hb]

/-- every comparison operator of `compareOps` is the stated combination of `Less` / `Equal` -/
theorem derived_ops (a b : Rep) :
    Expected.compareOps.map (fun e => (e.1, opOfText e.2 a b)) =
      [("!=", some (opNe a b)), ("<", some (opLt a b)), ("<=", some (opLe a b)),
       ("=", some (opEq a b)), (">", some (opGt a b)), (">=", some (opGe a b))] := by
  simp [Expected.compareOps, opOfText, opNe, opLt, opLe, opEq, opGt, opGe]

/-- … and these combinations are the derived relations of the strict order -/
theorem derived_ops_meaning (a b : Rep) :
    opLe a b = (less a b || equal a b) ∧ opGe a b = (less b a || equal a b) ∧
    opGt a b = less b a ∧ opNe a b = !equal a b ∧ opLt a b = less a b ∧ opEq a b = equal a b := by
  rcases trichotomy a b with h | h | h <;> simp [opLe, opGe, opGt, opNe, opLt, opEq, h.1, h.2.1, h.2.2]

/-! ### Part 1b — canonical-form equality and the meaning of values -/

/-- `=` (canonical-form equality) is sound for the meaning: values that are `=` denote the same `V`
(tuples and relation headings without repeated names — a frozen map cannot repeat a key) -/
theorem equal_sound (a b : Rep) (na : nodupNames a = true) (nb : nodupNames b = true) (h : equal a b = true) :
    den a = den b := key_sound a na b nb (by simpa [equal, K.beq_iff] using h)

/-- hence: if neither `a < b` nor `b < a`, the two values mean the same -/
theorem incomparable_same_meaning (a b : Rep) (na : nodupNames a = true) (nb : nodupNames b = true)
    (h₁ : less a b = false) (h₂ : less b a = false) : den a = den b := by
  apply equal_sound a b na nb
  rcases trichotomy a b with h | h | h
  · rw [h.1] at h₁; cases h₁
  · exact h.2.1
  · rw [h.2.2] at h₂; cases h₂

/-- the hypothesis is satisfiable non-trivially: `{(b: 1, a: {2, 3}), [4]}` and the same value enumerated otherwise -/
example : nodupNames (.union [.relation ["a", "b"] [[.generic [.num 2, .num 3], .num 1]], .generic [.array [some (.num 4)] 0]]) = true ∧
    equal (.union [.relation ["a", "b"] [[.generic [.num 2, .num 3], .num 1]], .generic [.array [some (.num 4)] 0]])
          (.union [.generic [.array [some (.num 4)] 0], .relation ["b", "a"] [[.num 1, .generic [.num 3, .num 2]]]]) = true := by
  decide

/-- canonical representations with the same meaning have the same order key (Arrai/C06/Unique.lean: C02's
`wf_unique`, one layer at a time); with `equal_sound`: on canonical representations `=` is equality of meanings -/
theorem equal_iff_den (a b : Rep) (ca : Canonical a) (cb : Canonical b) : equal a b = true ↔ den a = den b := by
  constructor
  · exact equal_sound a b (canon_nn a ca) (canon_nn b cb)
  · intro h
    have := key_complete a ca b cb h
    simp [equal, K.beq_iff, this]

/-- FULL trichotomy with the meaning in the middle: for canonical representations - the ones the constructors of
/repo/rel build, `Canonical r` = C02's canonical-form invariant on the translated representation `up r` -
exactly one of `a < b`, `den a = den b`, `b < a` -/
theorem trichotomy_den (a b : Rep) (ca : Canonical a) (cb : Canonical b) :
    (less a b = true ∧ den a ≠ den b ∧ less b a = false) ∨
    (less a b = false ∧ den a = den b ∧ less b a = false) ∨
    (less a b = false ∧ den a ≠ den b ∧ less b a = true) := by
  have he := equal_iff_den a b ca cb
  rcases trichotomy a b with h | h | h
  · exact Or.inl ⟨h.1, fun e => by rw [he.2 e] at h; exact absurd h.2.1 (by simp), h.2.2⟩
  · exact Or.inr (Or.inl ⟨h.1, he.1 h.2.1, h.2.2⟩)
  · exact Or.inr (Or.inr ⟨h.1, fun e => by rw [he.2 e] at h; exact absurd h.2.1 (by simp), h.2.2⟩)

/-- the hypothesis is satisfiable non-trivially -/
example : Canonical (.union [.generic [.num 2, .gtuple [], .relation ["b", "a"] [[.num 1, .str [97] 0]]],
    .array [some (.dict [[.num 1, .num 2, .num 3]]), none, some .true_] 5]) := by
  unfold Canonical; decide

/-- without canonicity: at most one of `a < b`, `b < a`; and if neither, the meanings agree -/
theorem trichotomy_den_partial (a b : Rep) (na : nodupNames a = true) (nb : nodupNames b = true) :
    (less a b = true ∧ less b a = false) ∨ (less a b = false ∧ den a = den b ∧ less b a = false) ∨
    (less a b = false ∧ less b a = true) := by
  rcases trichotomy a b with h | h | h
  · exact Or.inl ⟨h.1, h.2.2⟩
  · exact Or.inr (Or.inl ⟨h.1, equal_sound a b na nb h.2.1, h.2.2⟩)
  · exact Or.inr (Or.inr ⟨h.1, h.2.2⟩)

/-- the canonicity hypothesis of the full statement cannot be dropped: a non-canonical representation (a repeated
member, which a frozen set cannot hold) is ordered against the canonical one although they mean the same -/
theorem trichotomy_den_needs_canonical :
    less (.generic [.num 1]) (.generic [.num 1, .num 1]) = true ∧
    den (.generic [.num 1]) = den (.generic [.num 1, .num 1]) := by decide

/-! ### Part 2 — sorting follows the order -/

/-- a strict total order has exactly one sorted arrangement of a list: two arrangements of the same members
that are both strictly increasing w.r.t. an asymmetric relation are the same list -/
theorem sort_unique {α : Type} (lt : α → α → Prop) (asymm : ∀ a b, lt a b → lt b a → False)
    (l₁ l₂ : List α) (h₁ : l₁.Pairwise lt) (h₂ : l₂.Pairwise lt) (hp : l₁.Perm l₂) : l₁ = l₂ :=
  List.Perm.eq_of_pairwise (le := lt) (fun a b _ _ hab hba => (asymm a b hab hba).elim) h₁ h₂ hp

/-- … and insertion sort (the model of `sort.Sort`/`sort.Slice`) finds it when no two members are equal -/
theorem sort_exists (xs : List Rep) (hn : NoTies id xs) :
    (isort less xs).Perm xs ∧ (isort less xs).Pairwise (fun x y => less x y = true) := by
  refine ⟨isort_perm _ _, ?_⟩
  have h := sortedLT_of_noTies (orderBy_sortedLE id xs) (hn.perm (orderBy_perm id xs).symm)
  exact h.imp (fun {x y} hxy => (kcmp_lt_iff id x y).1 hxy)

/-- the result of sorting does not depend on the order in which the members are enumerated -/
theorem sort_perm_invariant (xs ys : List Rep) (hn : NoTies id xs) (hp : xs.Perm ys) :
    isort less xs = isort less ys := orderBy_perm_invariant (f := id) hn hp

/-- `orderby`: a rearrangement of the members, non-decreasing in the key -/
theorem orderby_sorted (keyf : Rep → Rep) (xs : List Rep) :
    (orderBy keyf xs).Perm xs ∧ (orderBy keyf xs).Pairwise (fun x y => less (keyf y) (keyf x) = false) := by
  refine ⟨orderBy_perm keyf xs, ?_⟩
  exact (orderBy_sortedLE keyf xs).imp (fun {x y} h => (kcmp_ne_gt_iff keyf x y).1 h)

/-- without tied keys `orderby` is strictly increasing, is the only such arrangement, and does not depend on the
enumeration order of the set -/
theorem orderby_unique (keyf : Rep → Rep) (xs : List Rep) (hn : NoTies keyf xs) :
    (orderBy keyf xs).Pairwise (fun x y => less (keyf x) (keyf y) = true) ∧
    (∀ l : List Rep, l.Perm xs → l.Pairwise (fun x y => less (keyf x) (keyf y) = true) → l = orderBy keyf xs) ∧
    (∀ ys : List Rep, xs.Perm ys → orderBy keyf ys = orderBy keyf xs) := by
  have hs := sortedLT_of_noTies (orderBy_sortedLE keyf xs) (hn.perm (orderBy_perm keyf xs).symm)
  refine ⟨hs.imp (fun {x y} h => (kcmp_lt_iff keyf x y).1 h), ?_, ?_⟩
  · intro l hp hl
    exact sortedLT_perm_eq (f := keyf) (hl.imp (fun {x y} h => (kcmp_lt_iff keyf x y).2 h)) hs
      (hp.trans (orderBy_perm keyf xs).symm)
  · intro ys hp; exact (orderBy_perm_invariant hn hp).symm

/-- with tied keys only the tied members may swap: the sequence of keys is still determined -/
theorem orderby_keys_determined (keyf : Rep → Rep) (xs ys : List Rep) (hp : xs.Perm ys) :
    (orderBy keyf xs).map (fun x => key (keyf x)) = (orderBy keyf ys).map (fun x => key (keyf x)) :=
  orderBy_keys_perm_invariant keyf hp

/-- `rank`: the entries come out in `orderby` order and the rank of an entry is the number of entries whose
key is strictly smaller -/
theorem rank_by_less (keyf : Rep → Rep) (xs : List Rep) :
    (rank keyf xs).map (·.1) = orderBy keyf xs ∧
    ∀ p ∈ rank keyf xs, p.2 = (xs.filter (fun y => less (keyf y) (keyf p.1))).length := by
  refine ⟨rankLoop_fst keyf _ 0 0 none, ?_⟩
  intro p hp
  have h := rankLoop_spec keyf (orderBy keyf xs) [] 0 0 none (by simpa using orderBy_sortedLE keyf xs) rfl
    (Or.inl ⟨rfl, rfl⟩) p hp
  rw [h, List.nil_append, cnt]
  have hperm : ((orderBy keyf xs).filter (fun y => K.lt (key (keyf y)) (key (keyf p.1)))).Perm
      (xs.filter (fun y => K.lt (key (keyf y)) (key (keyf p.1)))) := (orderBy_perm keyf xs).filter _
  rw [hperm.length_eq]
  congr 1
  apply List.filter_congr
  intro y _; rw [less_eq]

/-- `max`/`min` (with `.` as key): a member that no member exceeds / undercuts; `none` only for the empty set -/
theorem min_max_by_less (xs : List Rep) :
    (∀ m, maxOf xs = some m → m ∈ xs ∧ ∀ y ∈ xs, less m y = false) ∧
    (∀ m, minOf xs = some m → m ∈ xs ∧ ∀ y ∈ xs, less y m = false) ∧
    (xs ≠ [] → (maxOf xs).isSome = true ∧ (minOf xs).isSome = true) := by
  refine ⟨?_, ?_, ?_⟩
  · intro m hm
    obtain ⟨h1, h2, _⟩ := maxLoop_spec xs none m hm
    refine ⟨?_, h2⟩
    rcases h1 with h | h
    · exact h
    · cases h
  · intro m hm
    obtain ⟨h1, h2, _⟩ := minLoop_spec xs none m hm
    refine ⟨?_, h2⟩
    rcases h1 with h | h
    · exact h
    · cases h
  · intro hne
    cases xs with
    | nil => exact absurd rfl hne
    | cons v vs =>
      obtain ⟨m, hm⟩ := maxLoop_some vs v
      obtain ⟨m', hm'⟩ := minLoop_some vs v
      simp [maxOf, minOf, Impl.maxLoop, Impl.minLoop, hm, hm']

/-- the maximum is unique up to `=` -/
theorem max_unique (xs : List Rep) (m m' : Rep) (hm : maxOf xs = some m) (hm' : m' ∈ xs)
    (hmax : ∀ y ∈ xs, less m' y = false) : equal m m' = true := by
  obtain ⟨hmem, hall⟩ := (min_max_by_less xs).1 m hm
  rcases trichotomy m m' with h | h | h
  · rw [hall m' hm'] at h; cases h.1
  · exact h.2.1
  · rw [hmax m hmem] at h; cases h.2.2

/-- printing a set walks `OrderedValues()`: the members in the one order `less`, whatever the enumeration order -/
theorem print_order_by_less (xs ys : List Rep) (hn : NoTies id xs) (hp : xs.Perm ys) :
    orderedValues xs = orderedValues ys ∧ (orderedValues xs).Pairwise (fun x y => less x y = true) :=
  ⟨sort_perm_invariant xs ys hn hp, (sort_exists xs hn).2⟩

/-! ### Part 3 — before the repairs trichotomy failed (witnesses; each is replayed from the corpus of Gen.lean) -/

/-- `()` vs `{}`: neither is less, and they are not equal (`EmptySet.Less`) -/
theorem trichotomy_false_before_repair_empty :
    Old.less (.gtuple []) .empty = false ∧ Old.less .empty (.gtuple []) = false ∧
    equal (.gtuple []) .empty = false := by decide

/-- `()` vs `true` (`TrueSet.Less`) -/
theorem trichotomy_false_before_repair_true :
    Old.less (.gtuple []) .true_ = false ∧ Old.less .true_ (.gtuple []) = false ∧
    equal (.gtuple []) .true_ = false := by decide

/-- `'abc'` vs `1\'abc'`: the offset was ignored (`String.Less`) -/
theorem trichotomy_false_before_repair_string_offset :
    Old.less (.str [97, 98, 99] 0) (.str [97, 98, 99] 1) = false ∧
    Old.less (.str [97, 98, 99] 1) (.str [97, 98, 99] 0) = false ∧
    equal (.str [97, 98, 99] 0) (.str [97, 98, 99] 1) = false := by decide

/-- a hole and U+FFFD coincide in `string(s.s)` -/
theorem trichotomy_false_before_repair_string_hole :
    Old.less (.str [97, -1, 98] 0) (.str [97, 65533, 98] 0) = false ∧
    Old.less (.str [97, 65533, 98] 0) (.str [97, -1, 98] 0) = false ∧
    equal (.str [97, -1, 98] 0) (.str [97, 65533, 98] 0) = false := by decide

/-- `[1,,2]` vs `[1,,3]`: a hole in both arrays ended the comparison (`Array.Less`) -/
theorem trichotomy_false_before_repair_array_holes :
    Old.less (.array [some (.num 1), none, some (.num 2)] 0) (.array [some (.num 1), none, some (.num 3)] 0) = false ∧
    Old.less (.array [some (.num 1), none, some (.num 3)] 0) (.array [some (.num 1), none, some (.num 2)] 0) = false ∧
    equal (.array [some (.num 1), none, some (.num 2)] 0) (.array [some (.num 1), none, some (.num 3)] 0) = false := by
  decide

/-- `{|b| (1)}` vs `{|a,b| (1,2)}`: each was less than the other — headings were tested in one direction only
(`Relation.Less`) -/
theorem trichotomy_false_before_repair_relation :
    Old.less (.relation ["b"] [[.num 1]]) (.relation ["a", "b"] [[.num 1, .num 2]]) = true ∧
    Old.less (.relation ["a", "b"] [[.num 1, .num 2]]) (.relation ["b"] [[.num 1]]) = true := by decide

/-- the repaired rules order the same witnesses -/
theorem witnesses_ordered_after_repair :
    less .empty (.gtuple []) = true ∧ less .true_ (.gtuple []) = true ∧
    less (.str [97, 98, 99] 0) (.str [97, 98, 99] 1) = true ∧
    less (.str [97, -1, 98] 0) (.str [97, 65533, 98] 0) = true ∧
    less (.array [some (.num 1), none, some (.num 2)] 0) (.array [some (.num 1), none, some (.num 3)] 0) = true ∧
    less (.bytes [1] 0) (.bytes [2] 0) = true ∧
    less (.num 3) (.gtuple [("@neg", .gtuple [("@neg", .num 1)])]) = true ∧
    less (.relation ["b"] [[.num 1]]) (.relation ["a", "b"] [[.num 1, .num 2]]) = true ∧
    less (.relation ["a", "b"] [[.num 1, .num 2]]) (.relation ["b"] [[.num 1]]) = false := by decide

/-- `<<1>> < <<2>>` panicked (`Bytes.Less` asserted `*Bytes`) -/
theorem old_bytes_less_panics : Old.panics (.bytes [1] 0) (.bytes [2] 0) = true := by decide

/-- `3 < (@neg: (@neg: 1))` panicked: the nested wrapper had the kind of a number (`GenericTuple.Kind`) -/
theorem old_kind_collision_panics :
    Old.kind (.gtuple [("@neg", .gtuple [("@neg", .num 1)])]) = Old.kind (.num 3) ∧
    Old.panics (.num 3) (.gtuple [("@neg", .gtuple [("@neg", .num 1)])]) = true := by decide

end Arrai.C06.Theorems
