/-
  C12 — printed values read back as the same value.

  Property theorems only (model: Arrai/C12/Model.lean, helper lemmas: Arrai/C12/Lemmas.lean).

  Part 0  regenerated facts = the tables/shapes the model was written against (by `decide`, every run).
  Part 1  TEXT LEVEL, proved for ALL inputs: the escape codec (reprEscape ∘ parseArraiStringFragment, both quote
          characters, every Unicode scalar and control character, byte level through UTF-8), the STR token boundary,
          attribute names, integers (Number.String → NUM), offsets, Go's %q as read by arr.ai (bundle config).
  Part 2  TREE LEVEL: `Impl.repr : Rep → PT` (Format of every type, leaves = the token texts of part 1) followed by
          `PT.den` (reader of the printed sub-language) is the identity on meanings for every printable
          representation.  `Rep.printable` is the decidable class: numbers under the 15-character guard, strings
          without holes over Unicode scalars, single-valued dict keys, no attribute named `*`, no attribute `x`
          together with `&x`, no hole at either end of an array.
          Without the hypothesis the statement is false (`C12_full_false`); the witnesses are the open findings
          KF-string-holes-print, KF-dict-dupkey-print, KF-string-nonscalar-print, KF-star-attr-print and
          KF-tuple-amp-counterpart.
  Part 3  the reader before the repairs (`Old`): the two defects machine-checked on their witnesses.
  What is NOT proved here: that `PT.den` agrees with arr.ai's real parser on the printed texts (structure of
  brackets, commas, operator precedence of `-` and `\`): that tie is the correspondence run of ./check only.
-/
import Arrai.C12.Lemmas
import Arrai.Facts.Generated

namespace Arrai.C12.Theorems
open Arrai Arrai.C12 Arrai.C12.Impl
open Arrai.Facts

/-! ### Part 0 — regenerated facts -/

theorem fact_reprEscapes : Generated.c12_reprEscapes = Expected.reprEscapes := by first | rfl | decide
theorem fact_reprEscapesSize : Generated.c12_reprEscapesSize = Expected.reprEscapesSize := by first | rfl | decide
theorem fact_reprEscapeBranches : Generated.c12_reprEscapeBranches = Expected.reprEscapeBranches := by first | rfl | decide
theorem fact_reprOffset : Generated.c12_reprOffset = Expected.reprOffset := by first | rfl | decide
theorem fact_reprStr : Generated.c12_reprStr = Expected.reprStr := by first | rfl | decide
theorem fact_reprString : Generated.c12_reprString = Expected.reprString := by first | rfl | decide
theorem fact_escapeCases : Generated.c12_escapeCases = Expected.escapeCases := by first | rfl | decide
theorem fact_escapeOther : Generated.c12_escapeOther = Expected.escapeOther := by first | rfl | decide
theorem fact_escapeDefault : Generated.c12_escapeDefault = Expected.escapeDefault := by first | rfl | decide
theorem fact_numberParams : Generated.c12_numberParams = Expected.numberParams := by first | rfl | decide
theorem fact_numberParse : Generated.c12_numberParse = Expected.numberParse := by first | rfl | decide
theorem fact_numberReturn : Generated.c12_numberReturn = Expected.numberReturn := by first | rfl | decide
theorem fact_fragmentLoop : Generated.c12_fragmentLoop = Expected.fragmentLoop := by first | rfl | decide
theorem fact_fragmentGuards : Generated.c12_fragmentGuards = Expected.fragmentGuards := by first | rfl | decide
theorem fact_renderableShape : Generated.c12_renderableShape = Expected.renderableShape := by first | rfl | decide
theorem fact_renderableBytes : Generated.c12_renderableBytes = Expected.renderableBytes := by first | rfl | decide
theorem fact_identRE : Generated.c12_identRE = Expected.identRE := by first | rfl | decide
theorem fact_namePatShape : Generated.c12_namePatShape = Expected.namePatShape := by first | rfl | decide
theorem fact_identStart : Generated.c12_identStart = Expected.identStart := by first | rfl | decide
theorem fact_identRest : Generated.c12_identRest = Expected.identRest := by first | rfl | decide
theorem fact_tupleNameRepr : Generated.c12_tupleNameRepr = Expected.tupleNameRepr := by first | rfl | decide
theorem fact_wbnf_STR : Generated.c12_wbnf_STR = Expected.wbnf_STR := by first | rfl | decide
theorem fact_wbnf_NUM : Generated.c12_wbnf_NUM = Expected.wbnf_NUM := by first | rfl | decide
theorem fact_wbnf_IDENT : Generated.c12_wbnf_IDENT = Expected.wbnf_IDENT := by first | rfl | decide
theorem fact_wbnf_names : Generated.c12_wbnf_names = Expected.wbnf_names := by first | rfl | decide
theorem fact_bundleConfigString : Generated.c12_bundleConfigString = Expected.bundleConfigString := by first | rfl | decide
theorem fact_outputValueCases : Generated.c12_outputValueCases = Expected.outputValueCases := by first | rfl | decide
theorem fact_formatFloatLens : Generated.c12_formatFloatLens = Expected.formatFloatLens := by first | rfl | decide
theorem fact_numberString : Generated.c12_numberString = Expected.numberString := by first | rfl | decide
theorem fact_formatLiterals : Generated.c12_formatLiterals = Expected.formatLiterals := by first | rfl | decide
theorem fact_consts : Generated.c12_consts = Expected.consts := by first | rfl | decide

/-- the printer's escape table and the reader's case table fit together (everything part 1 needs from them) -/
theorem tables_compatible : tablesOK = true := tablesOK_true

/-! ### Part 1 — text level -/

/-- parseArraiStringFragment (reprEscape s) = s, on bytes: every string of runes (any `Nat`; non-scalars are
what `string(rune)` makes of them), both delimiters, any `indent` argument -/
theorem escape_roundtrip (s : List Nat) (q : Nat) (hq : q = 39 ∨ q = 34) (indent : List Nat) :
    parseFragment (utf8s (reprEscapeBody s q)) indent = some (utf8s s) :=
  parseFragment_reprEscapeBody indent s q hq

/-- Go's `[]rune(string(rs)) = rs` on Unicode scalars (the model of the conversions used on both sides) -/
theorem utf8_roundtrip (s : List Nat) (h : ∀ c ∈ s, isScalar c = true) : utf8dec (utf8s s) = s :=
  utf8dec_utf8s s h

/-- … hence on runes: every string over Unicode scalars (all controls, DEL, both quotes, backslash, BMP, astral,
U+FFFD) reads back as itself -/
theorem escape_roundtrip_runes (s : List Nat) (q : Nat) (hq : q = 39 ∨ q = 34) (h : ∀ c ∈ s, isScalar c = true) :
    (parseFragment (utf8s (reprEscapeBody s q))).map utf8dec = some s := by
  rw [escape_roundtrip s q hq, Option.map_some, utf8_roundtrip s h]

/-- the STR token of the grammar ends exactly at the closing quote the printer wrote, whatever follows -/
theorem str_token_boundary (s : List Nat) (q : Nat) (hq : q = 39 ∨ q = 34) (rest : List Nat) :
    scanStr q (reprEscapeBody s q ++ q :: rest) = some (reprEscapeBody s q, rest) :=
  scanStr_body q hq rest s

/-- reprStr's choice of quote is one of the two the theorems above cover -/
theorem reprStr_roundtrip (s : List Nat) (h : ∀ c ∈ s, isScalar c = true) (rest : List Nat) :
    scanStr (chooseQuote s) (reprEscapeBody s (chooseQuote s) ++ chooseQuote s :: rest)
        = some (reprEscapeBody s (chooseQuote s), rest)
    ∧ (parseFragment (utf8s (reprEscapeBody s (chooseQuote s)))).map utf8dec = some s :=
  ⟨str_token_boundary s _ (chooseQuote_cases s) rest, escape_roundtrip_runes s _ (chooseQuote_cases s) h⟩

/-- attribute names: bare identifier or quoted form, both read back as the name -/
theorem name_roundtrip (n : List Nat) (h : ∀ c ∈ n, isScalar c = true) : parseName (tupleNameRepr n) = some n :=
  parseName_tupleNameRepr n h

/-- integers: whenever formatFloat64 returns the shortest form (text under 15 characters), reading it gives the number -/
theorem int_roundtrip (n : Int) (p : Bool × NumTok) (h : reprNum n = some p) : readNum p = some n :=
  readNum_reprNum n p h

/-- the guard is met by every integer of at most six digits (so `int_roundtrip` is not vacuous there) -/
theorem int_guard_small (n : Int) (h1 : -1000000 < n) (h2 : n < 1000000) : (reprNum n).isSome = true :=
  reprNum_small n h1 h2

example : (reprNum 1234567).isSome = true ∧ (reprNum 123456789000).isSome = true ∧ (reprNum (-123456789000)).isSome = false
    ∧ (reprNum 9007199254740991).isSome = false := by decide

/-- offsets (`%d\`) -/
theorem offset_roundtrip (off : Int) : readOff (reprOff off) = off := readOff_reprOff off

/-- Go's %q (strconv.Quote, whatever `unicode.IsPrint` says) is read by arr.ai's string reader as the same bytes;
the STR token ends at the closing quote; hence the same runes for Unicode scalars -/
theorem goquote_roundtrip (isPrint : Nat → Bool) (s : List Nat) (h : ∀ c ∈ s, isScalar c = true) (rest : List Nat) :
    scanStr 34 (goQuoteBody isPrint s ++ 34 :: rest) = some (goQuoteBody isPrint s, rest)
    ∧ (parseFragment (utf8s (goQuoteBody isPrint s))).map utf8dec = some s := by
  refine ⟨scanStr_goQuoteBody isPrint rest s, ?_⟩
  have hb : ∀ c ∈ s, c < 4294967296 := by
    intro c hc
    have := h c hc
    simp only [isScalar, Bool.or_eq_true, Bool.and_eq_true, decide_eq_true_eq] at this
    omega
  rw [parseFragment_goQuoteBody isPrint s hb, Option.map_some, utf8_roundtrip s h]

/-- the text written by bundleConfig.String(): `(main_root: %q, main_file: %q)` -/
def bundleConfigText (isPrint : Nat → Bool) (root file : List Nat) : PT :=
  .tup [(.bare [109, 97, 105, 110, 95, 114, 111, 111, 116], .str none 34 (goQuoteBody isPrint root)),
        (.bare [109, 97, 105, 110, 95, 102, 105, 108, 101], .str none 34 (goQuoteBody isPrint file))]

/-- … evaluates to the tuple of the same two strings -/
theorem bundle_config (isPrint : Nat → Bool) (root file : List Nat)
    (hr : ∀ c ∈ root, isScalar c = true) (hf : ∀ c ∈ file, isScalar c = true) :
    (bundleConfigText isPrint root file).den
      = some (V.mkTup [("main_root", V.mkSeq "@char" 0 (root.map numV)), ("main_file", V.mkSeq "@char" 0 (file.map numV))]) := by
  have h1 := goquote_roundtrip isPrint root hr []
  have h2 := goquote_roundtrip isPrint file hf []
  have hp1 : parseFragment (utf8s (goQuoteBody isPrint root)) = some (utf8s root) :=
    parseFragment_goQuoteBody isPrint root (by
      intro c hc; have := hr c hc
      simp only [isScalar, Bool.or_eq_true, Bool.and_eq_true, decide_eq_true_eq] at this; omega)
  have hp2 : parseFragment (utf8s (goQuoteBody isPrint file)) = some (utf8s file) :=
    parseFragment_goQuoteBody isPrint file (by
      intro c hc; have := hf c hc
      simp only [isScalar, Bool.or_eq_true, Bool.and_eq_true, decide_eq_true_eq] at this; omega)
  have i1 : isIdent [109, 97, 105, 110, 95, 114, 111, 111, 116] = true := by decide
  have i2 : isIdent [109, 97, 105, 110, 95, 102, 105, 108, 101] = true := by decide
  have n1 : nameStr [109, 97, 105, 110, 95, 114, 111, 111, 116] = "main_root" := by decide
  have n2 : nameStr [109, 97, 105, 110, 95, 102, 105, 108, 101] = "main_file" := by decide
  have ap : ampPair [[109, 97, 105, 110, 95, 114, 111, 111, 116], [109, 97, 105, 110, 95, 102, 105, 108, 101]] = false := by
    decide
  simp [bundleConfigText, PT.den, PT.denAttrs, parseName, i1, i2, n1, n2, h1.1, h2.1, hp1, hp2,
    utf8_roundtrip root hr, utf8_roundtrip file hf, readOff, ap]

/-! ### Part 2 — tree level -/

/-- printing then reading is the identity on meanings, for every printable representation -/
theorem C12_partial (r : Rep) (h : r.printable = true) : (Impl.repr r).den = some r.den := den_repr r h

def C12_full : Prop := ∀ r : Rep, (Impl.repr r).den = some r.den

/-- KF-dict-dupkey-print: a multi-valued key prints as a repeated key, which the dict literal rejects -/
def dupKeyDict : Rep := .dict [(.num 1, .num 2), (.num 1, .num 3)]
/-- KF-string-holes-print: `{(@: 0, @char: 97), (@: 2, @char: 99)}` (String "a", hole, "c") -/
def holeyString : Rep := .str 0 [97, -1, 99]
/-- KF-string-nonscalar-print: a surrogate code point inside a String -/
def surrogateString : Rep := .str 0 [0xD800]

/-- KF-star-attr-print: `//tuple({'*': 1})` — the attribute name `*` is the wildcard marker of tuple literals -/
def starTuple : Rep := .tup [([42], .num 1)]

/-- KF-tuple-amp-counterpart: `('': 1, '&': <<'a'>>)` — an attribute and its view counterpart `&x` -/
def ampTuple : Rep := .tup [([], .num 1), ([38], .bytes 0 [97])]

theorem C12_full_false : ¬ C12_full := by
  intro hf
  have := hf dupKeyDict
  revert this
  decide

theorem dict_multivalued_key_is_rejected : (Impl.repr dupKeyDict).den = none := by decide

/-- `('*': 1)` is rejected ("Wildcard attr cannot have a name") -/
theorem star_attribute_is_rejected : (Impl.repr starTuple).den = none := by decide

/-- the model reader does not commit to a value for a tuple literal naming both `x` and `&x` (the evaluator keeps
both when every value is a literal and strips the counterpart otherwise) -/
theorem amp_counterpart_is_outside_the_fragment : (Impl.repr ampTuple).den = none := by decide

/-- the hole markers are printed as U+FFFD inside the quotes: the text reads back as a dense string -/
theorem string_holes_read_back_dense :
    (Impl.repr holeyString).den = some (Rep.den (.str 0 [97, 0xFFFD, 99]))
    ∧ Rep.den (.str 0 [97, 0xFFFD, 99]) ≠ holeyString.den := by decide

theorem nonscalar_char_reads_back_as_replacement :
    (Impl.repr surrogateString).den = some (Rep.den (.str 0 [0xFFFD])) ∧ Rep.den (.str 0 [0xFFFD]) ≠ surrogateString.den := by
  decide

/-- a non-trivial value satisfying every hypothesis: offsets, holes inside an array, both quote characters, controls,
astral characters, quoted and bare names, a relation with a non-identifier heading, byte arrays of both forms, @neg -/
def sample : Rep :=
  .tup [([97], .arr 2 [some (.num (-1234567)), none, some (.str (-1) [39, 34, 92, 10, 1, 127, 0x1F600])]),
        ([97, 32, 98], .dict [(.str 0 [107], .set [.tt, .set []]), (.num 2, .bytes 3 [0, 255])]),
        ([64, 110, 101, 103], .rel [[120], [121, 32]] [[.num 1, .bytes (-2) [97, 10]], [.num 2, .tt]]),
        ([], .rel [[120], [121]] [[.num 1, .tup []], [.num 2, .str 0 [233]]])]

example : sample.printable = true ∧ dupKeyDict.printable = false ∧ holeyString.printable = false
    ∧ surrogateString.printable = false ∧ starTuple.printable = false ∧ ampTuple.printable = false := by decide

/-- Relation.Format's heading is a permutation of the stored attribute names: nothing is lost or invented -/
theorem relation_heading_is_permutation (phys : List (List Nat)) : (sortNames phys).Perm phys := sortNames_perm phys

/-- Relation.Format's row projection: under every name of the printed heading stands the value the row stores for that
attribute, whatever the physical column order (sorted, as in a literal, or permuted, as in a join result) -/
theorem relation_row_projection {α : Type} (phys : List (List Nat)) (row : List α) (n : List Nat) (h : n ∈ phys) :
    lookupName n ((sortNames phys).zip (projectRow phys row (sortNames phys))) = some (lookupName n (phys.zip row)) := by
  have hn : n ∈ sortNames phys := (sortNames_perm phys).mem_iff.2 h
  exact lookupName_zip_map (fun m => lookupName m (phys.zip row)) (sortNames phys) n hn

/-- the join result `{|a, c| (1, 2)} <&> {|a, b, d| (1, 3, 4)}` is stored as a, c, b, d and must print (1, 3, 2, 4);
taking the stored row as it stands (a "contiguous" slice) would print (1, 2, 3, 4) -/
theorem relation_view_of_a_join_result :
    relView [[97], [99], [98], [100]] [[1, 2, 3, 4]]
      = ([[97], [98], [99], [100]], [[some 1, some 3, some 2, some 4]]) := by decide

/-- what `arrai eval` writes at top level (pkg/arrai/out.go): raw for strings and byte arrays, nothing for the
empty set, the printed form for everything else -/
theorem output_modes : outputMode holeyString = .raw ∧ outputMode (.bytes 0 [1]) = .raw ∧ outputMode (.set []) = .empty
    ∧ outputMode sample = .repr ∧ outputMode .tt = .repr ∧ outputMode (.num 0) = .repr := by decide

/-! ### Part 3 — the reader before the repairs -/

namespace Old

/-- `number` as it was: bit size `size*base/4`, returns the index AFTER the last digit -/
def number (s : List Nat) (i size base : Nat) : Option (List Nat × Nat) :=
  if i + size ≤ s.length then
    match parseUint ((s.drop i).take size) base (size * base / 4) with
    | some n => some (utf8 n, i + size)
    | none => none
  else none

def loop (s indent : List Nat) : Nat → Nat → List Nat → Option (List Nat)
  | 0, _, _ => none
  | fuel + 1, i, acc =>
    match s[i]? with
    | none => some acc
    | some c =>
      if c = 92 then
        match s[i + 1]? with
        | none => none
        | some e =>
          match escAct e with
          | .number off size base _ =>
            match number s (i + 1 + off) size base with
            | some (out, j) => loop s indent fuel (j + 1) (acc ++ out)
            | none => none
          | .byte b => loop s indent fuel (i + 2) (acc ++ [b])
          | .indent => loop s indent fuel (i + 2) (acc ++ indent)
          | .bad => none
      else loop s indent fuel (i + 1) (acc ++ [c])

def parseFragment (s : List Nat) : Option (List Nat) := loop s [] (s.length + 1) 0 []

end Old

/-- `"\x41BC"` evaluated to `AC`; now `ABC` -/
theorem old_reader_dropped_a_character :
    Old.parseFragment [92, 120, 52, 49, 66, 67] = some [65, 67]
    ∧ parseFragment [92, 120, 52, 49, 66, 67] = some [65, 66, 67] := by decide

/-- a trailing backslash, an unknown escape, too few digits, an octal escape above \377: the reader reports an error
(`none`); since the repair that is a compile error, not a panic -/
theorem bad_escapes_are_rejected :
    parseFragment [97, 92] = none ∧ parseFragment [92, 113] = none ∧ parseFragment [92, 120, 52] = none
    ∧ parseFragment [92, 52, 48, 48] = none ∧ parseFragment [92, 117, 49, 50, 32, 120] = none := by decide

/-- `"\101"` panicked (6-bit limit for three octal digits); now `A` -/
theorem old_reader_octal_limit :
    Old.parseFragment [92, 49, 48, 49] = none ∧ parseFragment [92, 49, 48, 49] = some [65] := by decide

/-- so the escape round trip was false: the printed form of "\x01" followed by "A" read back without the "A" -/
theorem old_escape_roundtrip_false :
    Old.parseFragment (utf8s (reprEscapeBody [1, 65] 39)) = some [1] := by decide

end Arrai.C12.Theorems
