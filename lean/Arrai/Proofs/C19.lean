/-
  C19 — `--out` writes exactly the described tree, or changes nothing.

  Property theorems only (helper lemmas: Arrai/C19/Lemmas.lean).  `Impl` is the transliteration of
  pkg/arrai/out.go, `Spec.valid` / `Spec.apply` the specification, `T` the file-system tree
  (equality of trees is extensional: the same files with the same bytes and the same directories).

  The theorems about `--out=dir:` carry the hypothesis `v.plain`: every dict key is refused or names a
  single element, and sibling elements are distinct.  Without it they are false of today's code
  (keys such as 'a/b' are joined as paths; known finding KF-out-key-with-separator): see the
  `_full` statements and their `_full_false` refutations.
-/
import Arrai.C19.Lemmas

namespace Arrai.C19.Theorems
open Arrai.C19 Arrai.C19.Impl

/-- PATH exists already or its parent is a directory (so that it can be created) -/
def Creatable (arg : Path) (fs : FS) : Prop := (get arg fs).present = true ∨ parentIsDir arg fs = true

/-- outcome and final file system of a fault-free run -/
def outcome (v : Val) (mode : Mode) (arg : Path) (fs : FS) : Res Unit := (run [] v mode arg fs).1
def final (v : Val) (mode : Mode) (arg : Path) (fs : FS) : FS := (run [] v mode arg fs).2.fs

private theorem run_of_runs {v : Val} {mode : Mode} {arg : Path} {fs fs' : FS} {r : Res Unit}
    (h : Runs (outputValue [] v mode arg) fs r fs') : outcome v mode arg fs = r ∧ final v mode arg fs = fs' := by
  obtain ⟨n', e⟩ := h 0 false
  simp [outcome, final, run, e]

private theorem hpar_of_creatable {arg : Path} {fs : FS} (hc : Creatable arg fs) :
    (get arg fs).present = false → parentIsDir arg fs = true := by
  intro h
  rcases hc with h' | h'
  · rw [h] at h'; simp at h'
  · exact h'

/-! ### Shape of the transliteration -/

/-- the `case rel.Dict` arm of the entry switch (written out in the model so that the recursion is
structural) is `outputTupleDir` of the entry, as in the Go code -/
theorem outputEntry_dict_is_outputTupleDir (e : Key × Val) (es : List (Key × Val)) (φ : List Nat) (p : Path)
    (dry : Bool) : outputEntry (.dict (e :: es)) φ p dry = outputTupleDir (.dict (e :: es)) φ p dry := by
  simp [outputEntry, outputTupleDir]

/-! ### The dry pass -/

/-- dry_predicts: the validation pass changes nothing and succeeds exactly on the valid descriptions
(so the writing pass cannot discover an invalid entry after it has deleted or written something). -/
theorem dry_predicts_partial (v : Val) (hpl : v.plain = true) (arg : Path) (fs : FS) :
    ∃ r, Runs (outputTupleDir v [] arg true) fs r fs ∧ (r = .ok () ↔ Spec.validDir v (get arg fs) = true) := by
  refine ⟨_, dry_dir v hpl arg fs, ?_⟩
  cases Spec.validDir v (get arg fs) <;> simp [okIf]

/-! ### `--out=dir:PATH` -/

private theorem dir_runs_valid (v : Val) (hpl : v.plain = true) (arg : Path) (fs : FS)
    (hv : Spec.valid v (get arg fs) = true) (hc : Creatable arg fs) :
    Runs (outputValue [] v .dir arg) fs (.ok ()) (alter arg (fun _ => Spec.apply v (get arg fs)) fs) := by
  simp only [Spec.valid, Bool.and_eq_true] at hv
  unfold outputValue
  simp only [hv.1, if_true]
  have hd := dry_dir v hpl arg fs
  rw [hv.2] at hd
  exact Runs.bind_ok hd (real_dir v hpl arg fs hv.2 (hpar_of_creatable hc))

/-- out_refines: on a valid description over a creatable PATH the command succeeds and the file system
becomes the old one with what is at PATH replaced by `Spec.apply` of the description and of what was there. -/
theorem out_refines_partial (v : Val) (hpl : v.plain = true) (arg : Path) (fs : FS)
    (hv : Spec.valid v (get arg fs) = true) (hc : Creatable arg fs) :
    outcome v .dir arg fs = .ok () ∧
    final v .dir arg fs = alter arg (fun _ => Spec.apply v (get arg fs)) fs :=
  run_of_runs (dir_runs_valid v hpl arg fs hv hc)

/-- … hence the tree under PATH is exactly the specified one … -/
theorem out_inside_exact (v : Val) (hpl : v.plain = true) (arg : Path) (fs : FS)
    (hv : Spec.valid v (get arg fs) = true) (hc : Creatable arg fs) :
    get arg (final v .dir arg fs) = Spec.apply v (get arg fs) := by
  rw [(out_refines_partial v hpl arg fs hv hc).2]
  apply get_alter_self
  rcases hc with h | h
  · apply reach_of_dir
    simp only [Spec.valid, Bool.and_eq_true] at hv
    have := notFile_of_validDir hv.2
    cases hg : get arg fs <;> simp [hg, T.present, Spec.notFile, statOf] at h this ⊢
  · exact reach_of_parentIsDir arg fs h

/-- … and nothing that is not at or below PATH is touched (file bytes, directories, absences). -/
theorem out_outside_untouched (v : Val) (hpl : v.plain = true) (arg : Path) (fs : FS)
    (hv : Spec.valid v (get arg fs) = true) (hc : Creatable arg fs) (q : Path) (hq : ¬ arg <+: q) :
    view (get q (final v .dir arg fs)) = view (get q fs) := by
  rw [(out_refines_partial v hpl arg fs hv hc).2]
  exact view_get_alter_outside arg q _ fs hq

/-- atomic: if the description is invalid anywhere (or PATH cannot be created) the command fails and the
file system is unchanged: nothing created, overwritten or deleted. -/
theorem atomic_partial (v : Val) (hpl : v.plain = true) (arg : Path) (fs : FS)
    (h : ¬ (Spec.valid v (get arg fs) = true ∧ Creatable arg fs)) :
    (∃ e, outcome v .dir arg fs = .err e) ∧ final v .dir arg fs = fs := by
  have key : ∃ e, Runs (outputValue [] v .dir arg) fs (.err e) fs := by
    unfold outputValue
    cases hi : Spec.isDictOrEmpty v with
    | false => exact ⟨.invalid, by simpa using Runs.fail _ fs⟩
    | true =>
      simp only [if_true]
      have hd := dry_dir v hpl arg fs
      cases hvd : Spec.validDir v (get arg fs) with
      | false => rw [hvd] at hd; exact ⟨.invalid, Runs.bind_err hd⟩
      | true =>
        rw [hvd] at hd
        -- valid, hence PATH is absent and its parent is not a directory: Mkdir fails, as the first change
        have hnc : ¬ Creatable arg fs := fun hc => h ⟨by simp [Spec.valid, hi, hvd], hc⟩
        have hab : (get arg fs).present = false := by
          cases hp : (get arg fs).present with
          | false => rfl
          | true => exact absurd (Or.inl hp) hnc
        have hnp : parentIsDir arg fs = false := by
          cases hp : parentIsDir arg fs with
          | false => rfl
          | true => exact absurd (Or.inr hp) hnc
        have habs : get arg fs = .absent := by
          cases hg : get arg fs <;> simp [hg, T.present] at hab ⊢
        have hhead : Runs (dirHead [] arg false) fs (.err .io) fs := by
          unfold dirHead
          apply Runs.stat_bind
          simp only [habs, statOf]
          simpa [mkdir, habs, T.present, hnp] using Runs.fsop (fun fs => if (get arg fs).present || !parentIsDir arg fs
            then ((.err .io : Res Unit), fs) else (.ok (), alter arg (fun _ => .dir (fun _ => .absent)) fs)) fs
        refine ⟨.io, Runs.bind_ok hd ?_⟩
        cases v with
        | dict es => simp only [outputTupleDir]; exact Runs.bind_err hhead
        | data b bs =>
          cases bs with
          | nil => simpa [outputTupleDir] using hhead
          | cons c cs => simp [Spec.isDictOrEmpty] at hi
        | tup _ _ _ => simp [Spec.isDictOrEmpty] at hi
        | other _ => simp [Spec.isDictOrEmpty] at hi
  obtain ⟨e, hr⟩ := key
  exact ⟨⟨e, (run_of_runs hr).1⟩, (run_of_runs hr).2⟩

/-! ### `--out=file:PATH` -/

/-- file_mode: a string, byte array or empty result is written to PATH and the file holds exactly its bytes;
nothing else changes -/
theorem file_mode_writes (v : Val) (bs : Bytes) (arg : Path) (fs : FS) (hb : Spec.bytesOf v = some bs)
    (hnd : statOf (get arg fs) ≠ .isDir) (hpar : parentIsDir arg fs = true) :
    outcome v .file arg fs = .ok () ∧ final v .file arg fs = alter arg (fun _ => .file bs) fs ∧
    get arg (final v .file arg fs) = .file bs := by
  have h : Runs (outputValue [] v .file arg) fs (.ok ()) (alter arg (fun _ => .file bs) fs) :=
    real_outputFile v bs arg fs hb (by simp [Spec.notDir, hnd]) hpar
  refine ⟨(run_of_runs h).1, (run_of_runs h).2, ?_⟩
  rw [(run_of_runs h).2]
  exact get_alter_self arg _ fs (reach_of_parentIsDir arg fs hpar)

/-- … and in every other case (another kind of result, PATH a directory, no parent directory, unknown mode)
the command fails and nothing changes -/
theorem file_mode_refuses (v : Val) (mode : Mode) (arg : Path) (fs : FS) (hm : mode ≠ .dir)
    (h : mode = .bad ∨ Spec.bytesOf v = none ∨ statOf (get arg fs) = .isDir ∨ parentIsDir arg fs = false) :
    (∃ e, outcome v mode arg fs = .err e) ∧ final v mode arg fs = fs := by
  have key : ∃ e, Runs (outputValue [] v mode arg) fs (.err e) fs := by
    unfold outputValue
    cases mode with
    | dir => exact absurd rfl hm
    | bad => exact ⟨.invalid, Runs.fail _ fs⟩
    | file =>
      simp only
      unfold outputFile
      cases hb : Spec.bytesOf v with
      | none => exact ⟨.invalid, Runs.fail _ fs⟩
      | some bs =>
        simp only
        by_cases hs : statOf (get arg fs) = .isDir
        · exact ⟨.invalid, Runs.stat_bind _ _ _ (by simpa [hs] using Runs.fail _ fs)⟩
        · have hp : parentIsDir arg fs = false := by
            rcases h with h | h | h | h
            · cases h
            · rw [hb] at h; cases h
            · exact absurd h hs
            · exact h
          refine ⟨.io, Runs.stat_bind _ _ _ ?_⟩
          simp only [hs, if_false, Bool.false_eq_true]
          refine Runs.bind_err ?_
          simpa [create, hs, hp] using Runs.fsop (fun fs => if statOf (get arg fs) = .isDir || !parentIsDir arg fs
            then ((.err .io : Res Unit), fs) else (.ok (), alter arg (fun _ => .file []) fs)) fs
  obtain ⟨e, hr⟩ := key
  exact ⟨⟨e, (run_of_runs hr).1⟩, (run_of_runs hr).2⟩

/-! ### Error reporting -/

/-- faults_reported: whatever the description, the mode and the set `φ` of failing calls — if any
file-system call (Stat, Mkdir, Create, Write, Sync, Close, RemoveAll) fails, the command reports an error -/
theorem faults_reported (φ : List Nat) (v : Val) (mode : Mode) (arg : Path) (fs : FS)
    (h : (run φ v mode arg fs).2.fired = true) : ∃ e, (run φ v mode arg fs).1 = .err e := by
  rcases sound_outputValue φ v mode arg _ h with h' | h'
  · simp at h'
  · exact h'

/-! ### Full-strength statements, and why they fail today (KF-out-key-with-separator) -/

def out_refines_full : Prop :=
  ∀ (v : Val) (arg : Path) (fs : FS), Spec.valid v (get arg fs) = true → Creatable arg fs →
    outcome v .dir arg fs = .ok () ∧ final v .dir arg fs = alter arg (fun _ => Spec.apply v (get arg fs)) fs

def atomic_full : Prop :=
  ∀ (v : Val) (arg : Path) (fs : FS), ¬ (Spec.valid v (get arg fs) = true ∧ Creatable arg fs) →
    (∃ e, outcome v .dir arg fs = .err e) ∧ final v .dir arg fs = fs

def dry_predicts_full : Prop :=
  ∀ (v : Val) (arg : Path) (fs : FS),
    ∃ r, Runs (outputTupleDir v [] arg true) fs r fs ∧ (r = .ok () ↔ Spec.validDir v (get arg fs) = true)

/-- the names `a`, `b`, `c`, `o` and the key `a/b` -/
private def kA : Name := [97]
private def kB : Name := [98]
private def kC : Name := [99]
private def kO : Name := [111]
private def keyAB : Key := .str [97, 47, 98]

/-- `{'a/b': 'x'}` -/
private def deep : Val := .dict [(keyAB, .data false [120])]
/-- `{'c': 'x', 'a/b': 'y'}` -/
private def deep2 : Val := .dict [(.str kC, .data false [120]), (keyAB, .data false [121])]
/-- `/o` is an empty directory -/
private def fsEmptyO : FS := T.ofList [(kO, T.ofList [])]
/-- `/o/a` is a file -/
private def fsFileA : FS := T.ofList [(kO, T.ofList [(kA, .file [1])])]

/-- `{'a/b': 'x'}` is valid over an empty directory (it describes the file a/b), but nobody creates
the directory `a`: Create fails after the validation pass has accepted the description -/
theorem out_refines_full_false : ¬ out_refines_full := by
  intro h
  have := (h deep [kO] fsEmptyO (by decide) (Or.inl (by decide))).1
  revert this
  decide

/-- `{'c': 'x', 'a/b': 'y'}` over a directory where `a` is a file is invalid, yet `c` is written before
the command fails -/
theorem atomic_full_false : ¬ atomic_full := by
  intro h
  have := (h deep2 [kO] fsFileA (fun hv => absurd hv.1 (by decide))).2
  have h2 : view (get [kO, kC] (final deep2 .dir [kO] fsFileA)) = view (get [kO, kC] fsFileA) := by rw [this]
  revert h2
  decide

/-- … and the validation pass accepts `{'a/b': 'x'}` over a file `a`, which is not valid -/
theorem dry_predicts_full_false : ¬ dry_predicts_full := by
  intro h
  obtain ⟨r, hr, hiff⟩ := h deep [kO] fsFileA
  obtain ⟨n', e⟩ := hr 0 false
  have h1 : (outputTupleDir deep [] [kO] true ⟨fsFileA, 0, false⟩).1 = .ok () := by decide
  rw [e] at h1
  have : Spec.validDir deep (get [kO] fsFileA) = true := hiff.1 h1
  revert this
  decide

/-! ### The hypotheses are satisfiable by non-trivial values -/

/-- `{'a': 'x', 'b': (ifExists: 'replace', dir: {'c': <<1>>})}` over `/o` holding a file `b`: plain, valid,
creatable — the run succeeds, writes `a`, and replaces the file `b` by a directory with the file `c` -/
example :
    let v : Val := .dict [(.str kA, .data false [120]),
      (.str kB, .tup (some .replace) (some (.dict [(.str kC, .data true [1])])) none)]
    let fs : FS := T.ofList [(kO, T.ofList [(kB, .file [7])])]
    v.plain = true ∧ Spec.valid v (get [kO] fs) = true ∧ Creatable [kO] fs ∧
    outcome v .dir [kO] fs = .ok () ∧
    view (get [kO, kA] (final v .dir [kO] fs)) = some (some [120]) ∧
    view (get [kO, kB, kC] (final v .dir [kO] fs)) = some (some [1]) := by
  refine ⟨by decide, by decide, Or.inl (by decide), by decide +kernel, by decide +kernel, by decide +kernel⟩

/-- an invalid plain description (a number at depth 2) over existing content: refused, nothing changes -/
example :
    let v : Val := .dict [(.str kA, .data false [120]), (.str kB, .dict [(.str kC, .other false)])]
    let fs : FS := T.ofList [(kO, T.ofList [(kB, .file [7])])]
    v.plain = true ∧ ¬ (Spec.valid v (get [kO] fs) = true ∧ Creatable [kO] fs) := by
  refine ⟨by decide, fun h => absurd h.1 (by decide)⟩

/-- a fault that fires: the Close of the only file (call 7) -/
example : (run [7] (.dict [(.str kA, .data false [120])]) .dir [kO] fsEmptyO).2.fired = true := by decide

end Arrai.C19.Theorems
