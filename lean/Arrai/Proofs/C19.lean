/-
  C19 — `--out` writes exactly the described tree, or changes nothing.

  Property theorems only (helper lemmas: Arrai/C19/{Lemmas,ExactLemmas,Faults}.lean).  `Impl` is the
  transliteration of pkg/arrai/out.go, `Spec.valid` / `Spec.apply` the specification, `T` the file-system
  tree (equality of trees is extensional: the same files with the same bytes and the same directories).

  Keys may denote paths of several elements ('a/b'; pinned by cmd/arrai TestEvalOutDir).  The code joins
  them to the directory without creating or checking the intermediate directories, and validates every
  entry against the state before the run.  `aliasOrMissingParent v cur` (decidable, Arrai/C19/Exact.lean) is
  the class on which this matters: two sibling keys denote the same path or one a path below the other,
  or a key names an entry whose parent directory does not exist when it is written.  Outside the class
  the property holds at full strength (`out_refines`, `atomic`, `dry_predicts`); inside it the theorems
  `dry_exact`, `out_refines_seq`, `missing_parent_exact` and `alias_order_matters` say what the code does,
  and `atomic_full_false` … exhibit the violations (known finding KF-out-key-with-separator).
-/
import Arrai.C19.ExactLemmas
import Arrai.C19.Faults

namespace Arrai.C19.Theorems
open Arrai.C19 Arrai.C19.Impl

/-- PATH exists already or its parent is a directory (so that it can be created) -/
def Creatable (arg : Path) (fs : FS) : Prop := (get arg fs).present = true ∨ parentIsDir arg fs = true

/-- outcome and final file system of a fault-free run -/
def outcome (v : Val) (mode : Mode) (arg : Path) (fs : FS) : Res Unit := (run [] v mode arg fs).1
def final (v : Val) (mode : Mode) (arg : Path) (fs : FS) : FS := (run [] v mode arg fs).2.fs

private theorem run_of_runs {v : Val} {mode : Mode} {arg : Path} {fs fs' : FS} {r : Res Unit}
    (h : Runs (outputValue [] v mode arg) fs r fs') : outcome v mode arg fs = r ∧ final v mode arg fs = fs' := by
  obtain ⟨n', e⟩ := h 0 false
  simp [outcome, final, run, e]

private theorem hpar_of_creatable {arg : Path} {fs : FS} (hc : Creatable arg fs) :
    (get arg fs).present = false → parentIsDir arg fs = true := by
  intro h
  rcases hc with h' | h'
  · rw [h] at h'; simp at h'
  · exact h'

/-! ### Shape of the transliteration -/

/-- the `case rel.Dict` arm of the entry switch (written out in the model so that the recursion is
structural) is `outputTupleDir` of the entry, as in the Go code -/
theorem outputEntry_dict_is_outputTupleDir (e : Key × Val) (es : List (Key × Val)) (φ : List Nat) (p : Path)
    (dry : Bool) : outputEntry (.dict (e :: es)) φ p dry = outputTupleDir (.dict (e :: es)) φ p dry := by
  simp [outputEntry, outputTupleDir]

/-! ### The dry pass -/

/-- dry_exact: for EVERY description, the validation pass changes nothing and returns exactly `Sem.dryDir`:
each entry is judged on what `Stat` finds at its joined path (a missing or non-directory intermediate
element just makes the target look absent). -/
theorem dry_exact (v : Val) (arg : Path) (fs : FS) :
    Runs (outputTupleDir v [] arg true) fs (okIf (Sem.dryDir v (get arg fs))) fs :=
  dryx_dir v arg fs

/-- dry_predicts: outside the class the validation pass succeeds exactly on the valid descriptions
(so the writing pass cannot discover an invalid entry after it has deleted or written something). -/
theorem dry_predicts (v : Val) (arg : Path) (fs : FS) (hcl : aliasOrMissingParent v (get arg fs) = false) :
    ∃ r, Runs (outputTupleDir v [] arg true) fs r fs ∧ (r = .ok () ↔ Spec.validDir v (get arg fs) = true) := by
  have hr : regularDir v (get arg fs) = true := by simpa [aliasOrMissingParent] using hcl
  refine ⟨_, dryx_dir v arg fs, ?_⟩
  rw [dry_eq_valid_dir v _ hr]
  cases Spec.validDir v (get arg fs) <;> simp [okIf]

/-! ### `--out=dir:PATH` -/

/-- out_refines_seq (exact, no class hypothesis): if the validation pass accepts and every entry in turn
— on the directory as the entries before it have left it — has its parent directories and can be written,
the command succeeds and PATH holds `Spec.apply` (entries applied in enumeration order). -/
theorem out_refines_seq (v : Val) (arg : Path) (fs : FS) (hi : Spec.isDictOrEmpty v = true)
    (hd : Sem.dryDir v (get arg fs) = true) (hok : Sem.okDir v (get arg fs) = true) (hc : Creatable arg fs) :
    outcome v .dir arg fs = .ok () ∧
    final v .dir arg fs = alter arg (fun _ => Spec.apply v (get arg fs)) fs := by
  apply run_of_runs
  unfold outputValue
  simp only [hi, if_true]
  have h1 := dryx_dir v arg fs
  rw [hd] at h1
  exact Runs.bind_ok h1 (realx_dir v arg fs hok (hpar_of_creatable hc))

/-- out_refines: outside the class, on a valid description over a creatable PATH the command succeeds and
the file system becomes the old one with what is at PATH replaced by `Spec.apply`. -/
theorem out_refines (v : Val) (arg : Path) (fs : FS) (hcl : aliasOrMissingParent v (get arg fs) = false)
    (hv : Spec.valid v (get arg fs) = true) (hc : Creatable arg fs) :
    outcome v .dir arg fs = .ok () ∧
    final v .dir arg fs = alter arg (fun _ => Spec.apply v (get arg fs)) fs := by
  have hr : regularDir v (get arg fs) = true := by simpa [aliasOrMissingParent] using hcl
  simp only [Spec.valid, Bool.and_eq_true] at hv
  exact out_refines_seq v arg fs hv.1 (by rw [dry_eq_valid_dir v _ hr]; exact hv.2)
    (ok_of_valid_dir v _ hr hv.2) hc

/-- … hence the tree under PATH is exactly the specified one … -/
theorem out_inside_exact (v : Val) (arg : Path) (fs : FS) (hcl : aliasOrMissingParent v (get arg fs) = false)
    (hv : Spec.valid v (get arg fs) = true) (hc : Creatable arg fs) :
    get arg (final v .dir arg fs) = Spec.apply v (get arg fs) := by
  rw [(out_refines v arg fs hcl hv hc).2]
  apply get_alter_self
  rcases hc with h | h
  · apply reach_of_dir
    simp only [Spec.valid, Bool.and_eq_true] at hv
    have := notFile_of_validDir hv.2
    cases hg : get arg fs <;> simp [hg, T.present, Spec.notFile, statOf] at h this ⊢
  · exact reach_of_parentIsDir arg fs h

/-- … and nothing that is not at or below PATH is touched (file bytes, directories, absences). -/
theorem out_outside_untouched (v : Val) (arg : Path) (fs : FS) (q : Path) (hq : ¬ arg <+: q) :
    view (get q (final v .dir arg fs)) = view (get q fs) :=
  within_outputValue [] v .dir arg _ q hq

/-- atomic: outside the class, if the description is invalid anywhere (or PATH cannot be created) the command
fails and the file system is unchanged: nothing created, overwritten or deleted. -/
theorem atomic (v : Val) (arg : Path) (fs : FS) (hcl : aliasOrMissingParent v (get arg fs) = false)
    (h : ¬ (Spec.valid v (get arg fs) = true ∧ Creatable arg fs)) :
    (∃ e, outcome v .dir arg fs = .err e) ∧ final v .dir arg fs = fs := by
  have hr : regularDir v (get arg fs) = true := by simpa [aliasOrMissingParent] using hcl
  have key : ∃ e, Runs (outputValue [] v .dir arg) fs (.err e) fs := by
    unfold outputValue
    cases hi : Spec.isDictOrEmpty v with
    | false => exact ⟨.invalid, by simpa using Runs.fail _ fs⟩
    | true =>
      simp only [if_true]
      have hd := dryx_dir v arg fs
      rw [dry_eq_valid_dir v _ hr] at hd
      cases hvd : Spec.validDir v (get arg fs) with
      | false => rw [hvd] at hd; exact ⟨.invalid, Runs.bind_err hd⟩
      | true =>
        rw [hvd] at hd
        -- valid, hence PATH is absent and its parent is not a directory: Mkdir fails, as the first change
        have hnc : ¬ Creatable arg fs := fun hc => h ⟨by simp [Spec.valid, hi, hvd], hc⟩
        have hab : (get arg fs).present = false := by
          cases hp : (get arg fs).present with
          | false => rfl
          | true => exact absurd (Or.inl hp) hnc
        have hnp : parentIsDir arg fs = false := by
          cases hp : parentIsDir arg fs with
          | false => rfl
          | true => exact absurd (Or.inr hp) hnc
        have habs : get arg fs = .absent := by
          cases hg : get arg fs <;> simp [hg, T.present] at hab ⊢
        have hhead : Runs (dirHead [] arg false) fs (.err .io) fs := by
          unfold dirHead
          apply Runs.stat_bind
          simp only [habs, statOf]
          simpa [mkdir, habs, T.present, hnp] using Runs.fsop (fun fs => if (get arg fs).present || !parentIsDir arg fs
            then ((.err .io : Res Unit), fs) else (.ok (), alter arg (fun _ => .dir (fun _ => .absent)) fs)) fs
        refine ⟨.io, Runs.bind_ok hd ?_⟩
        cases v with
        | dict es => simp only [outputTupleDir]; exact Runs.bind_err hhead
        | data b bs =>
          cases bs with
          | nil => simpa [outputTupleDir] using hhead
          | cons c cs => simp [Spec.isDictOrEmpty] at hi
        | tup _ _ _ => simp [Spec.isDictOrEmpty] at hi
        | other _ => simp [Spec.isDictOrEmpty] at hi
  obtain ⟨e, hr⟩ := key
  exact ⟨⟨e, (run_of_runs hr).1⟩, (run_of_runs hr).2⟩

/-- every violation of atomicity lies in the class: an invalid description (or an uncreatable PATH) on which
the command succeeds, or after which the file system differs, has aliasing keys or a missing parent -/
theorem atomic_violations_in_class (v : Val) (arg : Path) (fs : FS)
    (h : ¬ (Spec.valid v (get arg fs) = true ∧ Creatable arg fs))
    (hviol : outcome v .dir arg fs = .ok () ∨ final v .dir arg fs ≠ fs) :
    aliasOrMissingParent v (get arg fs) = true := by
  cases hcl : aliasOrMissingParent v (get arg fs) with
  | true => rfl
  | false =>
    obtain ⟨⟨e, he⟩, hf⟩ := atomic v arg fs hcl h
    rcases hviol with h1 | h1
    · rw [he] at h1; cases h1
    · exact absurd hf h1

/-- descriptions whose keys all name a single element, pairwise distinct (the former blanket hypothesis
`v.plain`), are outside the class — over any pre-existing state -/
theorem plain_outside_class (v : Val) (cur : T) (h : v.plain = true) : aliasOrMissingParent v cur = false := by
  simp [aliasOrMissingParent, regular_of_plain_dir v cur h]

/-! ### Inside the class: what the code does -/

/-- missing_parent_exact: PATH is a directory; the entries `pre` can be written one after the other; the next
entry is a file or a non-empty dict whose key names a path with a parent directory that does not exist at
that moment.  Then (the validation pass having accepted) the command fails with an I/O error, the entries
`pre` are written exactly as specified, and nothing else has happened. -/
theorem missing_parent_exact (pre post : List (Key × Val)) (k : Key) (w : Val) (rel : List Name) (arg : Path)
    (fs : FS) (f : Name → T) (hg : get arg fs = .dir f)
    (hd : Sem.dryDir (.dict (pre ++ (k, w) :: post)) (.dir f) = true)
    (hpre : Sem.okEntries pre f = true) (hrel : k.rel = some rel)
    (hmiss : parentsExist rel (Spec.applyEntries pre f) = false) (hw : needsParent w = true) :
    outcome (.dict (pre ++ (k, w) :: post)) .dir arg fs = .err .io ∧
    final (.dict (pre ++ (k, w) :: post)) .dir arg fs = alter arg (fun _ => .dir (Spec.applyEntries pre f)) fs := by
  apply run_of_runs
  unfold outputValue
  simp only [Spec.isDictOrEmpty, if_true]
  have h1 := dryx_dir (.dict (pre ++ (k, w) :: post)) arg fs
  rw [hg, hd] at h1
  refine Runs.bind_ok h1 ?_
  simp only [outputTupleDir]
  have hhead : Runs (dirHead [] arg false) fs (.ok ()) fs := by
    have := real_dirHead arg fs (by simp [hg, Spec.notFile, statOf]) (by simp [hg, T.present])
    rw [hg] at this
    simp only [children] at this
    have e : alter arg (fun _ => T.dir f) fs = fs := by rw [← hg]; exact alter_get_self arg fs
    rwa [e] at this
  refine Runs.bind_ok hhead ?_
  have hne := rel_ne_nil hrel
  have hreach : Reach arg fs := reach_of_dir arg fs (by simp [hg, statOf])
  have hg1 : get arg (alter arg (fun _ => T.dir (Spec.applyEntries pre f)) fs) = .dir (Spec.applyEntries pre f) :=
    get_alter_self arg _ fs hreach
  refine realx_entries_stop pre post k w rel arg fs _ f .io hg hpre hrel ?_
  apply outputEntry_no_parent w _ _ hw (by simp [hne])
  rw [parentIsDir_append_eq arg rel _ _ hg1 hne]
  exact hmiss

/-- the names `a`, `b`, `c`, `o` and the key `a/b` -/
private def kA : Name := [97]
private def kB : Name := [98]
private def kC : Name := [99]
private def kO : Name := [111]
private def keyAB : Key := .str [97, 47, 98]

/-- `{'a/b': 'x'}` -/
private def deep : Val := .dict [(keyAB, .data false [120])]
/-- `{'c': 'x', 'a/b': 'y'}` -/
private def deep2 : Val := .dict [(.str kC, .data false [120]), (keyAB, .data false [121])]
/-- `{'a': {'b': 'y'}, 'a/b': 'x'}` and the same entries in the other order -/
private def aliasAB : Val := .dict [(.str kA, .dict [(.str kB, .data false [121])]), (keyAB, .data false [120])]
private def aliasBA : Val := .dict [(keyAB, .data false [120]), (.str kA, .dict [(.str kB, .data false [121])])]
/-- `/o` is an empty directory -/
private def fsEmptyO : FS := T.ofList [(kO, T.ofList [])]
/-- `/o/a` is a file -/
private def fsFileA : FS := T.ofList [(kO, T.ofList [(kA, .file [1])])]

/-- alias_order_matters: `'a/b'` and a sibling dict `'a'` containing `'b'` denote the same file.  Both orders pass
the validation pass (each entry is judged on the state before the run).  Enumerated with `'a'` first, the
directory exists when `'a/b'` is written: success, and `a/b` holds the bytes of the entry written last.
Enumerated with `'a/b'` first, its parent does not exist: I/O error.  (Go enumerates a dict in hash order.) -/
theorem alias_order_matters :
    aliasOrMissingParent aliasAB (get [kO] fsEmptyO) = true ∧
    outcome aliasAB .dir [kO] fsEmptyO = .ok () ∧
    view (get [kO, kA, kB] (final aliasAB .dir [kO] fsEmptyO)) = some (some [120]) ∧
    outcome aliasBA .dir [kO] fsEmptyO = .err .io ∧
    view (get [kO, kA] (final aliasBA .dir [kO] fsEmptyO)) = none := by
  refine ⟨by decide, by decide +kernel, by decide +kernel, by decide +kernel, by decide +kernel⟩

/-! ### Full-strength statements without the class hypothesis, and their refutations -/

def out_refines_full : Prop :=
  ∀ (v : Val) (arg : Path) (fs : FS), Spec.valid v (get arg fs) = true → Creatable arg fs →
    outcome v .dir arg fs = .ok () ∧ final v .dir arg fs = alter arg (fun _ => Spec.apply v (get arg fs)) fs

def atomic_full : Prop :=
  ∀ (v : Val) (arg : Path) (fs : FS), ¬ (Spec.valid v (get arg fs) = true ∧ Creatable arg fs) →
    (∃ e, outcome v .dir arg fs = .err e) ∧ final v .dir arg fs = fs

def dry_predicts_full : Prop :=
  ∀ (v : Val) (arg : Path) (fs : FS),
    ∃ r, Runs (outputTupleDir v [] arg true) fs r fs ∧ (r = .ok () ↔ Spec.validDir v (get arg fs) = true)

/-- `{'a/b': 'x'}` is valid over an empty directory (it describes the file a/b), but nobody creates
the directory `a`: Create fails after the validation pass has accepted the description -/
theorem out_refines_full_false : ¬ out_refines_full := by
  intro h
  have := (h deep [kO] fsEmptyO (by decide) (Or.inl (by decide))).1
  revert this
  decide

/-- `{'c': 'x', 'a/b': 'y'}` over a directory where `a` is a file is invalid, yet `c` is written before
the command fails -/
theorem atomic_full_false : ¬ atomic_full := by
  intro h
  have := (h deep2 [kO] fsFileA (fun hv => absurd hv.1 (by decide))).2
  have h2 : view (get [kO, kC] (final deep2 .dir [kO] fsFileA)) = view (get [kO, kC] fsFileA) := by rw [this]
  revert h2
  decide

/-- … and the validation pass accepts `{'a/b': 'x'}` over a file `a`, which is not valid -/
theorem dry_predicts_full_false : ¬ dry_predicts_full := by
  intro h
  obtain ⟨r, hr, hiff⟩ := h deep [kO] fsFileA
  obtain ⟨n', e⟩ := hr 0 false
  have h1 : (outputTupleDir deep [] [kO] true ⟨fsFileA, 0, false⟩).1 = .ok () := by decide
  rw [e] at h1
  have : Spec.validDir deep (get [kO] fsFileA) = true := hiff.1 h1
  revert this
  decide

/-- the three witnesses above are in the class (as `atomic_violations_in_class` demands of the second) -/
theorem witnesses_in_class :
    aliasOrMissingParent deep (get [kO] fsEmptyO) = true ∧
    aliasOrMissingParent deep2 (get [kO] fsFileA) = true ∧
    aliasOrMissingParent deep (get [kO] fsFileA) = true := by
  refine ⟨by decide, by decide, by decide⟩

/-! ### `--out=file:PATH` -/

/-- file_mode: a string, byte array or empty result is written to PATH and the file holds exactly its bytes;
nothing else changes -/
theorem file_mode_writes (v : Val) (bs : Bytes) (arg : Path) (fs : FS) (hb : Spec.bytesOf v = some bs)
    (hnd : statOf (get arg fs) ≠ .isDir) (hpar : parentIsDir arg fs = true) :
    outcome v .file arg fs = .ok () ∧ final v .file arg fs = alter arg (fun _ => .file bs) fs ∧
    get arg (final v .file arg fs) = .file bs := by
  have h : Runs (outputValue [] v .file arg) fs (.ok ()) (alter arg (fun _ => .file bs) fs) :=
    real_outputFile v bs arg fs hb (by simp [Spec.notDir, hnd]) hpar
  refine ⟨(run_of_runs h).1, (run_of_runs h).2, ?_⟩
  rw [(run_of_runs h).2]
  exact get_alter_self arg _ fs (reach_of_parentIsDir arg fs hpar)

/-- … and in every other case (another kind of result, PATH a directory, no parent directory, unknown mode)
the command fails and nothing changes -/
theorem file_mode_refuses (v : Val) (mode : Mode) (arg : Path) (fs : FS) (hm : mode ≠ .dir)
    (h : mode = .bad ∨ Spec.bytesOf v = none ∨ statOf (get arg fs) = .isDir ∨ parentIsDir arg fs = false) :
    (∃ e, outcome v mode arg fs = .err e) ∧ final v mode arg fs = fs := by
  have key : ∃ e, Runs (outputValue [] v mode arg) fs (.err e) fs := by
    unfold outputValue
    cases mode with
    | dir => exact absurd rfl hm
    | bad => exact ⟨.invalid, Runs.fail _ fs⟩
    | file =>
      simp only
      unfold outputFile
      cases hb : Spec.bytesOf v with
      | none => exact ⟨.invalid, Runs.fail _ fs⟩
      | some bs =>
        simp only
        by_cases hs : statOf (get arg fs) = .isDir
        · exact ⟨.invalid, Runs.stat_bind _ _ _ (by simpa [hs] using Runs.fail _ fs)⟩
        · have hp : parentIsDir arg fs = false := by
            rcases h with h | h | h | h
            · cases h
            · rw [hb] at h; cases h
            · exact absurd h hs
            · exact h
          refine ⟨.io, Runs.stat_bind _ _ _ ?_⟩
          simp only [hs, if_false, Bool.false_eq_true]
          refine Runs.bind_err ?_
          simpa [create, hs, hp] using Runs.fsop (fun fs => if statOf (get arg fs) = .isDir || !parentIsDir arg fs
            then ((.err .io : Res Unit), fs) else (.ok (), alter arg (fun _ => .file []) fs)) fs
  obtain ⟨e, hr⟩ := key
  exact ⟨⟨e, (run_of_runs hr).1⟩, (run_of_runs hr).2⟩


/-- an empty result (`{}`, `''`, `<<>>`) makes PATH an empty file -/
theorem file_mode_empty (b : Bool) (arg : Path) (fs : FS)
    (hnd : statOf (get arg fs) ≠ .isDir) (hpar : parentIsDir arg fs = true) :
    outcome (.data b []) .file arg fs = .ok () ∧ get arg (final (.data b []) .file arg fs) = .file [] := by
  have := file_mode_writes (.data b []) [] arg fs rfl hnd hpar
  exact ⟨this.1, this.2.2⟩

/-- PATH is a directory: refused, nothing changes (in particular the directory and its content stay) -/
theorem file_mode_target_is_directory (v : Val) (arg : Path) (fs : FS) (h : statOf (get arg fs) = .isDir) :
    (∃ e, outcome v .file arg fs = .err e) ∧ final v .file arg fs = fs :=
  file_mode_refuses v .file arg fs (by decide) (.inr (.inr (.inl h)))

/-- the parent of PATH is missing or is not a directory: the command fails, nothing is created -/
theorem file_mode_parent_missing (v : Val) (arg : Path) (fs : FS) (h : parentIsDir arg fs = false) :
    (∃ e, outcome v .file arg fs = .err e) ∧ final v .file arg fs = fs :=
  file_mode_refuses v .file arg fs (by decide) (.inr (.inr (.inr h)))

/-! ### Faults -/

/-- faults_reported: whatever the description, the mode and the set `φ` of failing calls — if any
file-system call (Stat, Mkdir, Create, Write, Sync, Close, RemoveAll) fails, the command reports an error -/
theorem faults_reported (φ : List Nat) (v : Val) (mode : Mode) (arg : Path) (fs : FS)
    (h : (run φ v mode arg fs).2.fired = true) : ∃ e, (run φ v mode arg fs).1 = .err e := by
  rcases sound_outputValue φ v mode arg _ h with h' | h'
  · simp at h'
  · exact h'

/-- no_fault_is_fault_free: faults are the only source of divergence — a run in which no injected fault fires
returns the outcome, leaves the file system and has made the calls of the fault-free run -/
theorem no_fault_is_fault_free (φ : List Nat) (v : Val) (mode : Mode) (arg : Path) (fs : FS)
    (h : (run φ v mode arg fs).2.fired = false) : run φ v mode arg fs = run [] v mode arg fs :=
  (faith_outputValue φ v mode arg).2 _ h

/-- faults_outside_untouched: whatever fails and whenever, in both modes and for every description, nothing
that is not at or below PATH is touched -/
theorem faults_outside_untouched (φ : List Nat) (v : Val) (mode : Mode) (arg : Path) (fs : FS) (q : Path)
    (hq : ¬ arg <+: q) : view (get q (run φ v mode arg fs).2.fs) = view (get q fs) :=
  within_outputValue φ v mode arg _ q hq

/-! ### The hypotheses are satisfiable by non-trivial values -/

/-- `{'a': 'x', 'b': (ifExists: 'replace', dir: {'c': <<1>>})}` over `/o` holding a file `b`: outside the class,
valid, creatable — the run succeeds, writes `a`, and replaces the file `b` by a directory with the file `c` -/
example :
    let v : Val := .dict [(.str kA, .data false [120]),
      (.str kB, .tup (some .replace) (some (.dict [(.str kC, .data true [1])])) none)]
    let fs : FS := T.ofList [(kO, T.ofList [(kB, .file [7])])]
    aliasOrMissingParent v (get [kO] fs) = false ∧ Spec.valid v (get [kO] fs) = true ∧ Creatable [kO] fs ∧
    outcome v .dir [kO] fs = .ok () ∧
    view (get [kO, kA] (final v .dir [kO] fs)) = some (some [120]) ∧
    view (get [kO, kB, kC] (final v .dir [kO] fs)) = some (some [1]) := by
  refine ⟨by decide, by decide, Or.inl (by decide), by decide +kernel, by decide +kernel, by decide +kernel⟩

/-- a key of two elements whose parent exists is outside the class: `{'a/b': 'x'}` over `/o/a/` is written -/
example :
    let fs : FS := T.ofList [(kO, T.ofList [(kA, T.ofList [])])]
    aliasOrMissingParent deep (get [kO] fs) = false ∧ Spec.valid deep (get [kO] fs) = true ∧
    outcome deep .dir [kO] fs = .ok () ∧ view (get [kO, kA, kB] (final deep .dir [kO] fs)) = some (some [120]) := by
  refine ⟨by decide, by decide, by decide +kernel, by decide +kernel⟩

/-- an invalid description (a number at depth 2) over existing content: outside the class, refused -/
example :
    let v : Val := .dict [(.str kA, .data false [120]), (.str kB, .dict [(.str kC, .other false)])]
    let fs : FS := T.ofList [(kO, T.ofList [(kB, .file [7])])]
    aliasOrMissingParent v (get [kO] fs) = false ∧ ¬ (Spec.valid v (get [kO] fs) = true ∧ Creatable [kO] fs) := by
  refine ⟨by decide, fun h => absurd h.1 (by decide)⟩

/-- missing_parent_exact applies to `{'c': 'x', 'a/b': 'y'}` over the empty `/o`: `c` is written, then the I/O error -/
example :
    outcome (.dict ([(.str kC, .data false [120])] ++ (keyAB, .data false [121]) :: [])) .dir [kO] fsEmptyO = .err .io :=
  (missing_parent_exact [(.str kC, .data false [120])] [] keyAB (.data false [121]) [kA, kB] [kO] fsEmptyO
    (fun k => lookupL k []) rfl (by decide) (by decide) (by decide) (by decide) (by decide)).1

/-- a fault that fires: the Close of the only file (call 7) -/
example : (run [7] (.dict [(.str kA, .data false [120])]) .dir [kO] fsEmptyO).2.fired = true := by decide

end Arrai.C19.Theorems
