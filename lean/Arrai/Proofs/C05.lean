/-
  C05 — keyed collections act as functions; `>>`, `>>>`, `++` and offsets keep keys right.

  Property theorems only (helper lemmas: Arrai/C05/Lemmas.lean, Arrai/C05/Build.lean).
  Part 1: the specification says what the property says (exactly-one rule, keys kept).
  Part 2: the transliterated Go code (`Impl`, on representations) refines the specification
          (`Spec`, on meanings): calls incl. the error class, representation independence, the
          `?:` fallback, `>>`/`>>>`, `++`, `\`.
-/
import Arrai.C05.Count

namespace Arrai.C05.Theorems
open Arrai Arrai.C05 Arrai.C05.KSeq

/-! ### Part 1 — the specification is the property -/

/-- a call returns `v` exactly when `v` is the one and only value paired with the key -/
theorem call_ok_iff (xs : List V) (k : Arg) (v : V) :
    Spec.call (.set xs) k = .ok v ↔ ∀ w, (∃ x ∈ xs, Spec.valAt k x = some w) ↔ w = v := by
  have hm : ∀ w, w ∈ FinSet.mk (xs.filterMap (Spec.valAt k)) ↔ ∃ x ∈ xs, Spec.valAt k x = some w :=
    fun w => by rw [FinSet.mem_mk, List.mem_filterMap]
  simp only [Spec.call]
  constructor
  · intro h w
    rw [← hm]
    generalize FinSet.mk (xs.filterMap (Spec.valAt k)) = l at h
    match l, h with
    | [u], h => simp only [Spec.exactlyOne, Except.ok.injEq] at h; subst h; simp
  · intro h
    have : FinSet.mk (xs.filterMap (Spec.valAt k)) = [v] := by
      apply FinSet.sorted_ext _ _ (FinSet.sorted_mk _) (by simp [FinSet.Sorted])
      intro w; rw [hm, h]; simp
    rw [this]; rfl

/-- … is a "no value" error exactly when nothing is paired with the key -/
theorem call_noReturn_iff (xs : List V) (k : Arg) :
    Spec.call (.set xs) k = .error .noReturn ↔ ∀ x ∈ xs, Spec.valAt k x = none := by
  simp only [Spec.call]
  constructor
  · intro h x hx
    cases hv : Spec.valAt k x with
    | none => rfl
    | some w =>
      have : w ∈ FinSet.mk (xs.filterMap (Spec.valAt k)) :=
        (FinSet.mem_mk _ _).2 (List.mem_filterMap.2 ⟨x, hx, hv⟩)
      generalize FinSet.mk (xs.filterMap (Spec.valAt k)) = l at h this
      cases l with
      | nil => simp at this
      | cons a r => cases r <;> simp [Spec.exactlyOne] at h
  · intro h
    have : xs.filterMap (Spec.valAt k) = [] := by
      apply List.eq_nil_iff_forall_not_mem.2
      intro w hw
      obtain ⟨x, hx, hv⟩ := List.mem_filterMap.1 hw
      rw [h x hx] at hv; simp at hv
    rw [this]; rfl

/-- … and a "more than one" error exactly when two different values are paired with it -/
theorem call_tooMany_iff (xs : List V) (k : Arg) :
    Spec.call (.set xs) k = .error .tooMany ↔
      ∃ v w, v ≠ w ∧ (∃ x ∈ xs, Spec.valAt k x = some v) ∧ (∃ x ∈ xs, Spec.valAt k x = some w) := by
  have hm : ∀ w, w ∈ FinSet.mk (xs.filterMap (Spec.valAt k)) ↔ ∃ x ∈ xs, Spec.valAt k x = some w :=
    fun w => by rw [FinSet.mem_mk, List.mem_filterMap]
  have hnd := FinSet.sorted_nodup _ (FinSet.sorted_mk (xs.filterMap (Spec.valAt k)))
  simp only [Spec.call]
  simp only [← hm]
  generalize FinSet.mk (xs.filterMap (Spec.valAt k)) = l at hnd
  constructor
  · intro h
    match l, h, hnd with
    | a :: b :: r, _, hnd =>
      refine ⟨a, b, ?_, by simp, by simp⟩
      intro e; subst e; simp at hnd
  · rintro ⟨v, w, hne, hv, hw⟩
    match l, hv, hw with
    | [u], hv, hw => simp at hv hw; exact absurd (hv.trans hw.symm) hne
    | a :: b :: r, _, _ => rfl

/-- `>>` / `>>>` keep every key with its attribute name (offsets and holes included):
the (key, name) pairs of the result are those of the operand -/
theorem mapVals_keeps_keys (f : F) (xs : List V) (R : V) (h : Spec.mapVals f (.set xs) = .ok R) (k : V) (n : String) :
    (∃ y ∈ Spec.members R, ∃ w, asPair y = some (k, n, w)) ↔ (∃ x ∈ xs, ∃ v, asPair x = some (k, n, v)) := by
  simp only [Spec.mapVals] at h
  generalize Spec.modeOf (V.set xs) = m at h
  cases hm : Spec.mapMembers m f xs with
  | error e => rw [hm] at h; simp at h
  | ok ys =>
    rw [hm] at h
    simp only [Except.ok.injEq] at h; subst h
    simp only [Spec.members, V.mkSet, FinSet.mem_mk, mapMembers_ok hm]
    constructor
    · rintro ⟨y, ⟨x, hx, hy⟩, w, hw⟩
      refine ⟨x, hx, ?_⟩
      unfold Spec.mapMember at hy
      cases hp : asPair x with
      | none => rw [hp] at hy; simp at hy
      | some p =>
        obtain ⟨k', n', v⟩ := p
        rw [hp] at hy
        simp only at hy
        cases hf : f k' v with
        | error e => rw [hf] at hy; simp at hy
        | ok w' =>
          rw [hf] at hy
          simp only at hy
          split at hy
          · simp only [Except.ok.injEq] at hy; subst hy
            rw [asPair_pair _ _ _ (asPair_eq hp).2] at hw
            simp only [Option.some.injEq, Prod.mk.injEq] at hw
            obtain ⟨rfl, rfl, rfl⟩ := hw
            exact ⟨v, rfl⟩
          · simp at hy
    · rintro ⟨x, hx, v, hp⟩
      obtain ⟨y, hy⟩ : ∃ y, Spec.mapMember m f x = .ok y := by
        cases hh : Spec.mapMember m f x with
        | ok y => exact ⟨y, rfl⟩
        | error e =>
          obtain ⟨e', he⟩ := mapMembers_error.2 ⟨x, hx, e, hh⟩
          rw [hm] at he; simp at he
      refine ⟨y, ⟨x, hx, hy⟩, ?_⟩
      unfold Spec.mapMember at hy
      rw [hp] at hy
      simp only at hy
      cases hf : f k v with
      | error e => rw [hf] at hy; simp at hy
      | ok w' =>
        rw [hf] at hy
        simp only at hy
        split at hy
        · simp only [Except.ok.injEq] at hy; subst hy
          exact ⟨w', asPair_pair _ _ _ (asPair_eq hp).2⟩
        · simp at hy

/-! ### Part 2 — the Go code refines the specification -/

/-- calling any representation of a keyed collection is the specified call on its meaning —
the value, or the same class of error (no value / more than one) -/
theorem call_refines (c : Coll) (k : Arg) (hwf : c.wf = true) (hk : Spec.keyed c.den = true) :
    Impl.setCall c k = Spec.call c.den k :=
  setCall_eq c k hwf hk

/-- … and on ANY well-formed set, keyed or not: one member that is neither a pair nor `()` makes the
call an error of class `other` (never "no value", so `?:` does not fall back); otherwise — `true`,
`'ab' | true` — the pairs answer as above -/
theorem call_total (c : Coll) (k : Arg) (hwf : c.wf = true) : Impl.setCall c k = Spec.callAny c.den k :=
  setCall_total c k hwf

/-- two representations of the same set (keyed or not) answer every call identically -/
theorem call_rep_indep_total (c c' : Coll) (k : Arg) (hwf : c.wf = true) (hwf' : c'.wf = true)
    (hden : c.den = c'.den) : Impl.setCall c k = Impl.setCall c' k := by
  rw [setCall_total c k hwf, setCall_total c' k hwf', hden]

/-- two representations of the same collection answer every call identically -/
theorem call_rep_indep (c c' : Coll) (k : Arg) (hwf : c.wf = true) (hwf' : c'.wf = true)
    (hk : Spec.keyed c.den = true) (hden : c.den = c'.den) : Impl.setCall c k = Impl.setCall c' k := by
  rw [setCall_eq c k hwf hk, setCall_eq c' k hwf' (hden ▸ hk), hden]

/-- `c(k)?:d` is the specified safe call … -/
theorem safecall_refines (c : Coll) (k : Arg) (d : V) (hwf : c.wf = true) (hk : Spec.keyed c.den = true) :
    Impl.safeCall c k d = Spec.safeCall c.den k d := by
  simp only [Impl.safeCall, Spec.safeCall, setCall_eq c k hwf hk]
  cases h : Spec.call c.den k with
  | ok v => rfl
  | error e => cases e <;> rfl

/-- … whose fallback is taken exactly in the no-value case (not for "more than one", not for any other error) -/
theorem safecall_fallback (c : Coll) (k : Arg) (d : V) (hwf : c.wf = true) (hk : Spec.keyed c.den = true) :
    (Impl.safeCall c k d).1 = true ↔ Spec.call c.den k = .error .noReturn := by
  rw [safecall_refines c k d hwf hk]
  simp only [Spec.safeCall]
  cases h : Spec.call c.den k with
  | ok v => simp
  | error e => cases e <;> simp

/-- with an argument EXPRESSION: as long as it does not itself fail with a missing attribute, the
fallback is taken exactly in the no-value case -/
theorem safecall_fallback_partial (c : Coll) (x : Spec.ArgX) (d : V) (hwf : c.wf = true)
    (hk : Spec.keyed c.den = true) (hx : x ≠ .missingAttr) :
    Impl.safeCallX c x d = Spec.safeCallX c.den x d := by
  cases x with
  | val a => exact safecall_refines c a d hwf hk
  | missingAttr => exact absurd rfl hx
  | otherErr => rfl

/-- the full-strength statement … -/
def safecall_fallback_full : Prop :=
  ∀ (c : Coll) (x : Spec.ArgX) (d : V), c.wf = true → Spec.keyed c.den = true →
    ((Impl.safeCallX c x d).1 = true ↔ ∃ a, x = .val a ∧ Spec.call c.den a = .error .noReturn)

/-- `>>` / `>>>` on a string, byte array, array or dictionary: the result means the operand's
meaning with every value transformed and every key kept; an error exactly when the specification
has one (a transformer error, or a non-char / non-byte result for a string / byte array) -/
theorem seqarrow_refines (f : F) (c : Coll) (h : c.isSugar = true) (hwf : c.wf = true) :
    (Impl.seqArrow f c).value?.map Coll.den = (Spec.mapVals f c.den).value? := by
  have hmem : ∀ c' : Coll, c'.members = [] ∨ c'.members ≠ [] := fun c' => by
    cases c'.members <;> simp
  cases c with
  | one b =>
    cases b with
    | str off rs =>
      exact arrowOk_refines (arrowOk_str f off rs) ((hmem _).imp id (modeOf_str off rs))
    | bytes off bs =>
      exact arrowOk_refines (arrowOk_bytes f off bs) ((hmem _).imp id (modeOf_bytes off bs hwf))
    | arr off vs =>
      exact arrowOk_refines (arrowOk_arr f off vs) ((hmem _).imp id (modeOf_arr off vs))
    | dict m =>
      exact arrowOk_refines (arrowOk_dict f m) ((hmem _).imp id (modeOf_dict m))
    | _ => simp [Coll.isSugar] at h
  | _ => simp [Coll.isSugar] at h

/-- every other set — relations, unions, `true`, sets that are not keyed at all — goes through the
generic loop and the set builder. Whether it fails, and with which member's error, is exactly as
specified (no hypothesis on the result): -/
theorem seqarrow_set_error_iff (f : F) (c : Coll) (h : c.isSugar = false)
    (hm : Spec.modeOf c.den = .generic) :
    (Impl.seqArrow f c).value? = none ↔ (Spec.mapVals f c.den).value? = none := by
  rw [mapVals_den, hm, seqArrow_set f c h, setLoop_eq]
  cases Spec.mapMembers .generic f c.members <;> simp [Res.value?, okSet]

/-- … an error returned by the loop is the error of transforming one of the members, as specified … -/
theorem seqarrow_set_error_class (f : F) (c : Coll) (h : c.isSugar = false) (e : Err)
    (hi : Impl.seqArrow f c = .error e) : ∃ x ∈ c.members, Spec.mapMember .generic f x = .error e := by
  rw [seqArrow_set f c h, setLoop_eq] at hi
  generalize c.members = l at hi
  induction l with
  | nil => simp [Spec.mapMembers] at hi
  | cons x r ih =>
    unfold Spec.mapMembers at hi
    cases h1 : Spec.mapMember .generic f x with
    | error e' =>
      rw [h1] at hi
      simp only [Except.error.injEq] at hi
      exact ⟨x, by simp, by rw [h1, hi]⟩
    | ok y =>
      rw [h1] at hi
      cases h2 : Spec.mapMembers .generic f r with
      | error e' =>
        rw [h2] at hi
        simp only [Except.error.injEq] at hi
        subst hi
        obtain ⟨x', hx', he⟩ := ih (by rw [h2])
        exact ⟨x', List.mem_cons_of_mem _ hx', he⟩
      | ok ys => rw [h2] at hi; simp at hi

/-- … and the value is the specified one whenever that is representable (outside KF-superimposed /
KF-bytes-holes): the outcomes of `>>` on the generic loop and of the specification coincide -/
theorem seqarrow_set_refines_partial (f : F) (c : Coll) (h : c.isSugar = false)
    (hm : Spec.modeOf c.den = .generic) (hrep : Spec.okRepresentable (Spec.mapVals f c.den) = true) :
    (Impl.seqArrow f c).value?.map Coll.den = (Spec.mapVals f c.den).value? := by
  have hv := mapVals_den f c
  rw [hm] at hv
  rw [seqArrow_set f c h, setLoop_eq]
  cases hs : Spec.mapMembers .generic f c.members with
  | error e => rw [hs] at hv; rw [hv]; rfl
  | ok ys =>
    rw [hs] at hv
    cases hR : Spec.mapVals f c.den with
    | error e => rw [hR] at hv; simp [Res.value?, okSet] at hv
    | ok R =>
      rw [hR] at hv hrep
      simp only [Res.value?, okSet, Option.some.injEq] at hv
      subst hv
      simp only [Res.value?, Option.map_some, Option.some.injEq]
      apply den_build
      simp only [Spec.okRepresentable, Spec.representable, V.mkSet] at hrep
      exact representableList_congr (fun x => FinSet.mem_mk ys x) hrep

/-- in particular `>>` on a set that is not a set of pairs is an error -/
theorem seqarrow_nonkeyed_error (f : F) (c : Coll) (hk : Spec.keyed c.den = false) :
    (Impl.seqArrow f c).value? = none ∧ (Spec.mapVals f c.den).value? = none := by
  -- a member that is not a pair
  have hx : ∃ x ∈ c.members, asPair x = none := by
    simp only [Coll.den, V.mkSet, Spec.keyed, List.all_eq_false, FinSet.mem_mk, isPair,
      Bool.not_eq_true, Option.isSome_eq_false_iff, Option.isNone_iff_eq_none] at hk
    exact hk
  obtain ⟨x, hx, hp⟩ := hx
  have herr : ∀ m, ∃ e, Spec.mapMembers m f c.members = .error e := fun m =>
    mapMembers_error.2 ⟨x, hx, .other, by simp [Spec.mapMember, hp]⟩
  have hspec : (Spec.mapVals f c.den).value? = none := by
    rw [mapVals_den]; obtain ⟨e, he⟩ := herr (Spec.modeOf c.den); rw [he]; rfl
  refine ⟨?_, hspec⟩
  have hsug : c.isSugar = false := by
    cases c with
    | one b =>
      cases b with
      | str off rs =>
        obtain ⟨i, v, _, rfl⟩ := (mem_seqMembers _ _ _ _).1 hx
        rw [asPair_pair _ _ _ (by decide)] at hp; simp at hp
      | bytes off bs =>
        obtain ⟨i, v, _, rfl⟩ := (mem_seqMembers _ _ _ _).1 hx
        rw [asPair_pair _ _ _ (by decide)] at hp; simp at hp
      | arr off vs =>
        obtain ⟨i, v, _, rfl⟩ := (mem_seqMembers _ _ _ _).1 hx
        rw [asPair_pair _ _ _ (by decide)] at hp; simp at hp
      | dict m =>
        obtain ⟨k, vs, _, v, _, rfl⟩ := (mem_dictMembers m x).1 hx
        rw [asPair_pair _ _ _ (by decide)] at hp; simp at hp
      | _ => rfl
    | _ => rfl
  rw [seqArrow_set f c hsug, setLoop_eq]
  obtain ⟨e, he⟩ := herr .generic
  rw [he]; rfl

/-- the full-strength statement for `>>` on arbitrary representations … -/
def seqarrow_full : Prop :=
  ∀ (f : F) (c : Coll), c.wf = true → (Impl.seqArrow f c).value?.map Coll.den = (Spec.mapVals f c.den).value?

/-- `a ++ b` means `a ∪ shift |a| b` (an error exactly when a member of `b` has no numeric `@`),
proved when that set is representable: a left operand whose element count is smaller than its extent
(offset or sparse) makes indices collide — KF-superimposed -/
theorem concat_refines_partial (a b : Coll) (hc : a.wfCount = true)
    (h : Spec.okRepresentable (Spec.concat a.den b.den) = true) :
    (Impl.concat a b).value?.map Coll.den = (Spec.concat a.den b.den).value? := by
  have hcc := count_eq_card a hc
  rw [concat_spec a b hcc] at h ⊢
  rw [concat_impl]
  cases hs : Spec.shiftMembers (Int.ofNat (Impl.count a)) b.members with
  | none => rfl
  | some ys =>
    rw [hs] at h
    simp only [Spec.okRepresentable, Spec.representable, V.mkSet] at h
    simp only [Res.value?, Option.map_some, Option.some.injEq]
    exact den_build _ (representableList_congr (fun x => FinSet.mem_mk _ x) h)

/-- the shift of `++` is `a.Count()`, and `Count()` of every representation (String with holes,
multi-valued Dict, Relation, UnionSet, …) is the number of members of its meaning -/
theorem count_is_card (a : Coll) (h : a.wfCount = true) : Impl.count a = Spec.card a.den :=
  count_eq_card a h

/-- `++` fails exactly when the specification does (whatever the operands) -/
theorem concat_error_iff (a b : Coll) :
    (Impl.concat a b).value? = none ↔ (Spec.concat a.den b.den).value? = none := by
  rw [concat_spec_none a b (Int.ofNat (Impl.count a)), concat_impl]
  cases Spec.shiftMembers (Int.ofNat (Impl.count a)) b.members <;> simp [Res.value?]

/-- the full-strength statement for `++` … -/
def concat_full : Prop :=
  ∀ (a b : Coll), a.wf = true → b.wf = true → a.wfCount = true →
    (Impl.concat a b).value?.map Coll.den = (Spec.concat a.den b.den).value?

/-- `n \ s` on a string, byte array, array or the empty set: every index moved by `n`, nothing else -/
theorem offset_refines (c : Coll) (h : c.isSeq = true) (n : Int) :
    ∃ r, Impl.offset (.val (.num n)) c = .ok r ∧ Spec.offset (.val (.num n)) c.den = .ok r.den := by
  obtain ⟨name, off, slots, hv, hn, hm⟩ := seqView_isSeq h
  obtain ⟨r, hr, _, hrm⟩ := offset_members hv n
  refine ⟨r, hr, ?_⟩
  simp only [Spec.offset, shift_den, hm, shiftMembers_seq name hn, Option.map_some]
  simp only [Coll.den, hrm]

/-- a non-integer or non-numeric offset is an error (as repaired: no silent truncation) -/
theorem offset_bad_error (c : Coll) (n : Arg) (h : ∀ i, n ≠ .val (.num i)) :
    Impl.offset n c = .error .other ∧ Spec.offset n c.den = .error .other := by
  cases n with
  | frac m => exact ⟨rfl, rfl⟩
  | val v =>
    cases v with
    | num i => exact absurd rfl (h i)
    | tup _ => exact ⟨rfl, rfl⟩
    | set _ => exact ⟨rfl, rfl⟩

/-- offsets compose: `m \ (n \ s)` means `(m + n) \ s` -/
theorem offset_compose (c : Coll) (h : c.isSeq = true) (m n : Int) :
    ∃ r₁ r₂ r₃, Impl.offset (.val (.num n)) c = .ok r₁ ∧ Impl.offset (.val (.num m)) r₁ = .ok r₂ ∧
      Impl.offset (.val (.num (m + n))) c = .ok r₃ ∧ r₂.den = r₃.den := by
  obtain ⟨name, off, slots, hv, hn, hm⟩ := seqView_isSeq h
  obtain ⟨r₁, h1, hs1, hm1⟩ := offset_members hv n
  obtain ⟨name', off', slots', hv', hn', hm'⟩ := seqView_isSeq hs1
  obtain ⟨r₂, h2, _, hm2⟩ := offset_members hv' m
  obtain ⟨r₃, h3, _, hm3⟩ := offset_members hv (m + n)
  refine ⟨r₁, r₂, r₃, h1, h2, h3, ?_⟩
  have e1 := shiftMembers_seq name' hn' m off' slots'
  rw [← hm', hm1, shiftMembers_seq name hn] at e1
  simp only [Option.some.injEq] at e1
  simp only [Coll.den, hm2, hm3, ← e1]
  congr 2
  omega

/-- `n \ s` keeps the cached counters right, also for operands with holes: the result's `Count()`
(String: length minus the number of negative runes; Array: number of items) is the operand's and is
the number of members of its meaning, and the result is again a well-formed sequence -/
theorem offset_result_counts (c : Coll) (h : c.isSeq = true) (n : Int) :
    ∃ r, Impl.offset (.val (.num n)) c = .ok r ∧ r.isSeq = true ∧ r.wfCount = true ∧
      Impl.count r = Spec.card r.den ∧ Impl.count r = Impl.count c := by
  have hwc : ∀ c' : Coll, c'.isSeq = true → c'.wfCount = true := fun c' hc => by
    cases c' with
    | one b => cases b <;> first | rfl | simp [Coll.isSeq] at hc
    | union bs => simp [Coll.isSeq] at hc
    | _ => rfl
  have hcard : ∀ (c' : Coll) (name : String) (off : Int) (slots : List (Option V)), name ≠ "@" →
      c'.members = seqMembers name off slots → Spec.card c'.den = (slots.filter Option.isSome).length :=
    fun c' name off slots hn hm => by
      simp only [Coll.den, V.mkSet, Spec.card, hm,
        length_mk_of_nodup _ (nodup_seqMembers name hn off slots), length_seqMembers]
  obtain ⟨name, off, slots, hv, hn, hm⟩ := seqView_isSeq h
  obtain ⟨r, hr, hs, hrm⟩ := offset_members hv n
  refine ⟨r, hr, hs, hwc r hs, count_eq_card r (hwc r hs), ?_⟩
  rw [count_eq_card r (hwc r hs), count_eq_card c (hwc c h), hcard r name _ slots hn hrm,
    hcard c name off slots hn hm]

/-- whatever `>>`, `++` and `\` return satisfies the invariants `call_refines` asks for, so the results
can be called, transformed, concatenated and offset again under the same theorems -/
theorem results_wf (f : F) (a b : Coll) (n : Arg) (r : Coll) (ha : a.wf = true)
    (h : Impl.seqArrow f a = .ok r ∨ Impl.concat a b = .ok r ∨ Impl.offset n a = .ok r) : r.wf = true := by
  have hs : ∀ rs off, (Impl.newOffsetString rs off).wf = true := fun rs off => by
    unfold Impl.newOffsetString; split <;> rfl
  have hb : ∀ (bs : List Nat) off, (∀ b ∈ bs, b < 256) → (Impl.newOffsetBytes bs off).wf = true :=
    fun bs off hlt => by
      unfold Impl.newOffsetBytes
      split
      · rfl
      · simpa [Coll.wf, Bucket.wf] using hlt
  have hv : ∀ off vs, (Impl.newOffsetArray off vs).wf = true := fun off vs => by
    unfold Impl.newOffsetArray; simp only; split <;> rfl
  rcases h with h | h | h
  · by_cases hsug : a.isSugar = true
    · cases a with
      | one bk =>
        cases bk with
        | str off rs =>
          simp only [Impl.seqArrow] at h
          cases hl : Impl.strLoop f off rs <;> rw [hl] at h <;> simp at h
          subst h; exact hs _ _
        | bytes off bs =>
          simp only [Impl.seqArrow] at h
          cases hl : Impl.bytesLoop f off bs <;> rw [hl] at h <;> simp at h
          subst h; exact hb _ _ (bytesLoop_lt hl)
        | arr off vs =>
          simp only [Impl.seqArrow] at h
          cases hl : kmapM (fun i v => f (.num i) v) off vs <;> rw [hl] at h <;> simp at h
          subst h; exact hv _ _
        | dict m =>
          simp only [Impl.seqArrow] at h
          cases hl : Impl.dictLoop f (Impl.dictEntries m) <;> rw [hl] at h <;> simp at h
          subst h
          split
          · rfl
          · simp only [Coll.wf, Bucket.wf, decide_eq_true_eq]; exact nodup_newDict _
        | _ => simp [Coll.isSugar] at hsug
      | _ => simp [Coll.isSugar] at hsug
    · rw [seqArrow_set f a (by simpa using hsug)] at h
      cases hl : Impl.setLoop f a.members <;> rw [hl] at h <;> simp at h
      subst h; exact wf_build _
  · rw [concat_impl] at h
    cases hl : Spec.shiftMembers (Int.ofNat (Impl.count a)) b.members <;> rw [hl] at h <;> simp at h
    subst h; exact wf_build _
  · cases n with
    | frac m => simp [Impl.offset] at h
    | val v =>
      cases v with
      | num i =>
        cases a with
        | empty => simp only [Impl.offset, Except.ok.injEq] at h; subst h; rfl
        | true_ => simp [Impl.offset] at h
        | union bs => simp [Impl.offset] at h
        | one bk =>
          cases bk with
          | str o rs => simp only [Impl.offset, Except.ok.injEq] at h; subst h; exact hs _ _
          | bytes o bs =>
            simp only [Impl.offset, Except.ok.injEq] at h; subst h
            exact hb _ _ (by simpa [Coll.wf, Bucket.wf] using ha)
          | arr o vs => simp only [Impl.offset, Except.ok.injEq] at h; subst h; exact hv _ _
          | _ => simp [Impl.offset] at h
      | tup _ => simp [Impl.offset] at h
      | set _ => simp [Impl.offset] at h

/-! ### the full-strength statements fail on today's code, and the hypotheses are satisfiable -/

/-- `(2\'ab') ++ 'cd'`: the left operand has 2 elements at indices 2, 3, so 'cd' lands on 2, 3 too;
the specification's set has four members, the string that is built two -/
theorem concat_full_false : ¬ concat_full := by
  intro h
  exact absurd (h (.one (.str 2 [97, 98])) (.one (.str 0 [99, 100])) rfl rfl rfl) (by decide)

/-- a union holding two chars at index 0, mapped with the identity: the builder keeps one of them -/
theorem seqarrow_full_false : ¬ seqarrow_full := by
  intro h
  exact absurd (h (fun _ v => .ok v) (.union [.str 0 [97], .str 0 [98]]) rfl) (by decide)

/-- `'a'((a: 1).b)?:9`: the ARGUMENT expression fails with a missing attribute and the fallback is
taken although no call found "no value" (KF-safecall-arg-missing-attr) -/
theorem safecall_fallback_full_false : ¬ safecall_fallback_full := by
  intro h
  obtain ⟨a, ha, _⟩ := (h (.one (.str 0 [97])) .missingAttr (.num 9) rfl (by decide)).1 rfl
  cases ha

/-- non-vacuity: a well-formed keyed collection in a mixed representation (string with an offset and a
hole, dictionary with a two-valued key); a relation whose `>>` result is representable; operands of `++`
(offset right operand, different kinds) whose result is representable; a sequence for `\` -/
local notation "ex_c" => Coll.union [Bucket.str (-2) [97, -1, 99], Bucket.dict [(V.num 1, [V.num 2, V.num 3])]]
local notation "ex_r" => Coll.one (Bucket.rel false "a" [(V.num 5, V.num 1), (V.num 6, V.num 2)])
local notation "ex_a" => Coll.one (Bucket.str 0 [97, 98])
local notation "ex_b" => Coll.one (Bucket.arr 3 [some (V.num 1), none, some (V.num 2)])

example :
    Coll.wf ex_c = true ∧ Spec.keyed (Coll.den ex_c) = true ∧
    (Impl.setCall ex_c (.val (.num (-2)))).value? = some (.num 97) ∧
    (Impl.setCall ex_c (.val (.num (-1)))).value? = none ∧
    (Impl.setCall ex_c (.val (.num 1))).value? = none := by decide

example :
    Coll.wfCount ex_c = true ∧ Impl.count ex_c = 4 ∧ Coll.wfCount ex_a = true ∧
    Spec.modeOf (Coll.den ex_r) = .generic ∧ Spec.modeOf (Coll.den ex_c) = .generic ∧
    Spec.keyed (Coll.den (Coll.union [Bucket.str 0 [97], Bucket.tt])) = false ∧
    (Spec.ArgX.otherErr ≠ .missingAttr) := by decide

example :
    Coll.isSugar ex_r = false ∧ Coll.wf ex_r = true ∧
    Spec.okRepresentable (Spec.mapVals (fun _ v => .ok v) (Coll.den ex_r)) = true ∧
    (Spec.mapVals (fun _ v => .ok v) (Coll.den ex_r)).value?.isSome = true := by decide

example :
    Spec.okRepresentable (Spec.concat (Coll.den ex_a) (Coll.den ex_b)) = true ∧
    (Spec.concat (Coll.den ex_a) (Coll.den ex_b)).value?.isSome = true ∧
    (Coll.one (.bytes 1 [7])).isSeq = true ∧ (Coll.one (.dict [(.num 1, [.num 2])])).isSugar = true := by decide

end Arrai.C05.Theorems
