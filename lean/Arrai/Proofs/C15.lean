/-
  C15 — a bundle evaluates exactly like its sources and reads nothing else.

  Property theorems only (helpers: Arrai/C15/Lemmas.lean).  `fs` is the source tree, `main` the main
  script, `bundle sem fs main fuel = .ok (cfg, z)` the configuration and archive `arrai bundle` produces;
  `evalSource` / `evalBundle` are the compile-time structure (tree of file contents) from which both
  `arrai run main.arrai` and `arrai run main.arraiz` compute their value with the same function.
-/
import Arrai.C15.Lemmas
import Arrai.C15.Expected
import Arrai.Facts.Generated

namespace Arrai.C15.Theorems
open Arrai.C16 Arrai.C16.Impl Arrai.C16.Impl.Strs Arrai.C16.Impl.Path Arrai.C15 Arrai.C15.Impl

/-- the module path of the main script's go.mod has Normal components (no ".", "..", empty component) -/
def SaneModule (cfg : Cfg) : Prop := ∀ c ∈ splitSlash cfg.mainRoot, cfg.mainRoot ≠ [] → Spec.Normal c

/-- **map_join**: `path.Join(dir, mainRoot, TrimPrefix(Join(d, rel), absRoot))` is
`path.Join(mapPath d, rel)`: a relative import inside the archive lands on the image of its source target -/
theorem map_join (cfg : Cfg) (d rel : Path) (h : cfg.absRoot <+: d) :
    mapPath cfg (d ++ rel) = mapPath cfg d ++ rel := Arrai.C15.map_join cfg d rel h

/-- the directory of a mapped script is the mapped directory: `SourceDir` inside the archive -/
theorem map_source_dir (cfg : Cfg) (key : Path) (h : cfg.absRoot <+: dirOf key) (hne : key ≠ []) :
    dirOf (mapPath cfg key) = mapPath cfg (dirOf key) := map_dir cfg key h hne

/-- **root_found**: walking up inside the archive from the image of a source directory, the runtime finds
the image of that directory's module root (the sentinel is where the runtime looks, and no copied sentinel
lies in between) -/
theorem root_found (fs : Fs) (cfg : Cfg) (hs : Setup fs cfg) (z : Fs) (hz : Consistent fs cfg z) (d r : Path)
    (hd : cfg.absRoot <+: d) (hr : findRootC fs d = some r)
    (hsent : z.lookup (mapPath cfg (r ++ [sentinel])) ≠ none) :
    findRootC z (mapPath cfg d) = some (mapPath cfg r) := Arrai.C15.root_found fs cfg hs z hz d r hd hr hsent

/-- …and where the source tree has no module, the archive has none either -/
theorem no_spurious_root (fs : Fs) (cfg : Cfg) (hs : Setup fs cfg) (z : Fs) (hz : Consistent fs cfg z) (d : Path)
    (hd : cfg.absRoot <+: d) (hr : findRootC fs d = none) : findRootC z (mapPath cfg d) = none :=
  root_none fs cfg hs z hz d hd hr

/-- `SetupBundle` establishes what the other theorems assume -/
theorem setup_establishes (fs : Fs) (main : Path) (cfg : Cfg) (z0 : Fs) (hmain : main ≠ [])
    (h : setupBundle fs main = .ok (cfg, z0)) (hname : SaneModule cfg) :
    Setup fs cfg ∧ Consistent fs cfg z0 ∧ cfg.absRoot <+: dirOf main ∧ cfg.mainFile = mapPath cfg main :=
  let ⟨a, b, c, d, _⟩ := setup_ok fs main cfg z0 hmain h hname
  ⟨a, b, c, d⟩

/-- **closure** (one import): after an import has been bundled, the archive holds the imported file at
`mapPath` of its path, with the content the source tree has there — and, for a module-rooted import,
the sentinel of the module root used -/
theorem closure_import (fs : Fs) (cfg : Cfg) (hs : Setup fs cfg) (z : Fs) (hz : Consistent fs cfg z)
    (d : Path) (i : Imp) (q : Path) (c : Content) (z1 : Fs) (hd : cfg.absRoot <+: d)
    (h : bundleImport fs cfg z d i = .ok (q, c, z1)) :
    target fs d i = .ok q ∧ fs.lookup q = some c ∧ z1.lookup (mapPath cfg q) = some c ∧
    (i.dot = false → ∀ r, findRootC fs d = some r → z1.lookup (mapPath cfg (r ++ [sentinel])) ≠ none) := by
  obtain ⟨h1, h2, _, h4, h5, h6⟩ := bundleImport_ok fs cfg hs z d i q c z1 hd h
  refine ⟨h1, h2, ?_, h5⟩
  have hq : cfg.absRoot <+: q := by
    obtain ⟨base, ns, e, _, hb, _⟩ := target_shape fs cfg hs d i q hd h1
    rw [e]; exact prefix_append_of_prefix ns hb
  cases hl : z1.lookup (mapPath cfg q) with
  | none => exact absurd hl h4
  | some c' =>
    have := consistent_lookup fs cfg hs z1 (h6 hz) q hq c' hl
    rw [h2] at this; injection this with this
    rw [this]

/-- **closure** (whole walk): nothing that was put into the archive is lost or changed later, and every
entry is the image of a source file (or the configuration) -/
theorem closure_kept (sem : Sem) (fs : Fs) (cfg : Cfg) (hs : Setup fs cfg) (fuel : Nat) (chain : List Path)
    (z : Fs) (key : Path) (c : Content) (z' : Fs) (hd : cfg.absRoot <+: dirOf key)
    (h : walk sem fs cfg fuel chain z key c = .ok z') :
    Ext z z' ∧ (Consistent fs cfg z → Consistent fs cfg z') := walk_inv sem fs cfg hs fuel chain z key c z' hd h

/-- the archive reads nothing else: every entry is the configuration file or a copy of a source file
beneath the main script's module root (or directory) -/
theorem archive_only_sources (sem : Sem) (fs : Fs) (main : Path) (fuel : Nat) (cfg : Cfg) (z : Fs)
    (hmain : main ≠ []) (h : bundle sem fs main fuel = .ok (cfg, z)) (hname : SaneModule cfg) :
    Consistent fs cfg z := by
  unfold bundle at h
  cases hsb : setupBundle fs main with
  | error e => rw [hsb] at h; cases h
  | ok r =>
    obtain ⟨cfg0, z0⟩ := r
    rw [hsb] at h
    simp only at h
    cases hl : fs.lookup main with
    | none => rw [hl] at h; cases h
    | some c =>
      rw [hl] at h
      simp only at h
      cases hw : walk sem fs cfg0 fuel [] z0 main c with
      | error e => rw [hw] at h; cases h
      | ok z' =>
        rw [hw] at h
        injection h with h; injection h with h1 h2
        subst h1; subst h2
        obtain ⟨hs, hc0, hd, _⟩ := setup_ok fs main cfg0 z0 hmain hsb hname
        exact (walk_inv sem fs cfg0 hs fuel [] z0 main c z' hd hw).2 hc0

/-- **C15**: running the bundle yields exactly the compiled form of the source tree — the same value or
the same failure — for every layout, every main-file position and every fuel -/
theorem bundle_eval_eq (sem : Sem) (fs : Fs) (main : Path) (fuel : Nat) (cfg : Cfg) (z : Fs)
    (hmain : main ≠ []) (h : bundle sem fs main fuel = .ok (cfg, z)) (hname : SaneModule cfg) :
    evalBundle sem cfg z fuel = evalSource sem fs main fuel := by
  unfold bundle at h
  cases hsb : setupBundle fs main with
  | error e => rw [hsb] at h; cases h
  | ok r =>
    obtain ⟨cfg0, z0⟩ := r
    rw [hsb] at h
    simp only at h
    cases hl : fs.lookup main with
    | none => rw [hl] at h; cases h
    | some c =>
      rw [hl] at h
      simp only at h
      cases hw : walk sem fs cfg0 fuel [] z0 main c with
      | error e => rw [hw] at h; cases h
      | ok z' =>
        rw [hw] at h
        injection h with h; injection h with h1 h2
        subst h1; subst h2
        obtain ⟨hs, hc0, hd, hmf, src, hsrc, hz0⟩ := setup_ok fs main cfg0 z0 hmain hsb hname
        obtain ⟨hext, hcons⟩ := walk_inv sem fs cfg0 hs fuel [] z0 main c z' hd hw
        have hZ := hcons hc0
        rw [hl] at hsrc; injection hsrc with hsrc; subst hsrc
        have hsim := sim_load sem fs cfg0 hs z' hZ fuel [] z0 main c z' hd hmain (by simp) hw (Ext.refl _)
        simp only [List.map_nil] at hsim
        unfold evalBundle evalSource
        rw [hmf, hext _ _ hz0, hl]
        exact hsim

/-- bundling fails only as the source compile fails — or because the go.mod has no `module` line
(the known finding) -/
theorem bundle_fails_as_source (sem : Sem) (fs : Fs) (main : Path) (fuel : Nat) (e : Fail)
    (h : bundle sem fs main fuel = .error e) :
    e = .sentinel ∨ evalSource sem fs main fuel = .error e := by
  unfold bundle at h
  unfold evalSource
  cases hsb : setupBundle fs main with
  | error e' =>
    rw [hsb] at h
    injection h with h; subst h
    -- SetupBundle fails: main missing, or the sentinel does not parse
    unfold setupBundle at hsb
    cases hl : fs.lookup main with
    | none => rw [hl] at hsb; injection hsb with hsb; right; rw [← hsb]
    | some src =>
      rw [hl] at hsb
      simp only at hsb
      cases hr : findRootC fs (dirOf main) with
      | none => rw [hr] at hsb; cases hsb
      | some root =>
        rw [hr] at hsb
        simp only at hsb
        cases hsc : fs.lookup (root ++ [sentinel]) with
        | none => exact absurd hsc (findRootC_sentinel fs _ root hr)
        | some sc =>
          rw [hsc] at hsb
          simp only at hsb
          cases hp : parseModule sc.bytes with
          | none => rw [hp] at hsb; injection hsb with hsb; left; exact hsb.symm
          | some name => rw [hp] at hsb; cases hsb
  | ok r =>
    obtain ⟨cfg0, z0⟩ := r
    rw [hsb] at h
    simp only at h
    cases hl : fs.lookup main with
    | none => rw [hl] at h; injection h with h; right; rw [← h]
    | some c =>
      rw [hl] at h
      simp only at h ⊢
      have := walk_agree sem fs cfg0 fuel [] z0 main c
      cases hw : walk sem fs cfg0 fuel [] z0 main c with
      | ok z' => rw [hw] at h; cases h
      | error e' =>
        rw [hw] at h this
        injection h with h; subst h
        right; exact this

/-- conversely: if the sentinel parses and the source tree compiles, `arrai bundle` succeeds -/
theorem bundle_ok_of_source_ok (sem : Sem) (fs : Fs) (main : Path) (fuel : Nat) (t : T)
    (h : evalSource sem fs main fuel = .ok t)
    (hsent : ∀ root sc, findRootC fs (dirOf main) = some root → fs.lookup (root ++ [sentinel]) = some sc →
      parseModule sc.bytes ≠ none) :
    ∃ cfg z, bundle sem fs main fuel = .ok (cfg, z) := by
  cases hb : bundle sem fs main fuel with
  | ok r => exact ⟨r.1, r.2, rfl⟩
  | error e =>
    exfalso
    rcases bundle_fails_as_source sem fs main fuel e hb with rfl | he
    · -- the sentinel error needs a sentinel that does not parse
      unfold bundle at hb
      cases hsb : setupBundle fs main with
      | ok r =>
        obtain ⟨cfg0, z0⟩ := r
        rw [hsb] at hb
        simp only at hb
        cases hl : fs.lookup main with
        | none => rw [hl] at hb; cases hb
        | some c =>
          rw [hl] at hb
          simp only at hb
          have hag := walk_agree sem fs cfg0 fuel [] z0 main c
          cases hw : walk sem fs cfg0 fuel [] z0 main c with
          | ok z' => rw [hw] at hb; cases hb
          | error e' =>
            rw [hw] at hb hag
            injection hb with hb; subst hb
            unfold evalSource at h
            rw [hl] at h
            simp only [Agree] at hag
            simp only [hag] at h
            cases h
      | error e' =>
        rw [hsb] at hb
        injection hb with hb; subst hb
        unfold setupBundle at hsb
        cases hl : fs.lookup main with
        | none => rw [hl] at hsb; cases hsb
        | some src =>
          rw [hl] at hsb
          simp only at hsb
          cases hr : findRootC fs (dirOf main) with
          | none => rw [hr] at hsb; cases hsb
          | some root =>
            rw [hr] at hsb
            simp only at hsb
            cases hsc : fs.lookup (root ++ [sentinel]) with
            | none => rw [hsc] at hsb; cases hsb
            | some sc =>
              rw [hsc] at hsb
              simp only at hsb
              cases hp : parseModule sc.bytes with
              | none => exact hsent root sc hr hsc hp
              | some name => rw [hp] at hsb; cases hsb
    · rw [h] at he; cases he

/-! ### the working directory -/

theorem findRootUp_cwd (c1 c2 : Str) (files : List (List Str)) (up : List Str) :
    findRootUp ⟨c1, files⟩ up = findRootUp ⟨c2, files⟩ up := by
  induction up with
  | nil => simp [findRootUp, World.fileExists]
  | cons c up ih => simp [findRootUp, World.fileExists, ih]

/-- **cwd_indep**: inside an archive every script has an absolute path, and with an absolute source
directory the resolution of an import (C16's string-level pipeline) does not depend on the working
directory -/
theorem cwd_indep (files : List (List Str)) (c1 c2 srcDir raw : Str) (dot : Bool) (h : isAbs srcDir = true) :
    resolve ⟨c1, files⟩ srcDir dot raw = resolve ⟨c2, files⟩ srcDir dot raw := by
  unfold resolve
  cases localPath srcDir dot raw with
  | error e => rfl
  | ok r =>
    obtain ⟨fr, ip⟩ := r
    simp only [importLocalFile, findRoot, comps_abs _ _ h, findRootUp_cwd c1 c2]

/-- a file resolved from an absolute source directory has an absolute name: so has every script
reached from the main file of a bundle -/
theorem resolved_abs (w : World) (srcDir raw f : Str) (dot : Bool) (h : isAbs srcDir = true)
    (hr : resolve w srcDir dot raw = .ok f) : isAbs f = true := by
  cases dot with
  | true =>
    obtain ⟨hsd, ns, _, _, e, _⟩ := resolve_dot w srcDir raw f hr
    rw [e, isAbs_clean, isAbs_append _ _ hsd, h]
  | false =>
    obtain ⟨root, ms, _, _, _, e, _⟩ := resolve_root w srcDir raw f hr
    rw [e, isAbs_append _ _ (render_true_ne_nil root), isAbs_render_true]

/-! ### witnesses -/

def sem0 : Sem := { decodeOk := fun _ _ => true }

/-- a small module: main imports ./a and /lib/b, b imports /a (a diamond), with a nested directory -/
def fs0 : Fs :=
  [ (["srv".toList, "m".toList, "go.mod".toList], { bytes := "module ex.com/m\n".toList, imps := [], val := 0 }),
    (["srv".toList, "m".toList, "main.arrai".toList],
      { bytes := [], imps := [⟨true, "/a".toList, .none⟩, ⟨false, "/lib/b".toList, .none⟩], val := 0 }),
    (["srv".toList, "m".toList, "a.arrai".toList], { bytes := [], imps := [], val := 1 }),
    (["srv".toList, "m".toList, "lib".toList, "b.arrai".toList],
      { bytes := [], imps := [⟨false, "/a".toList, .none⟩], val := 2 }) ]

def main0 : Path := ["srv".toList, "m".toList, "main.arrai".toList]

/-- module path and entry names of a bundling result -/
def summary (r : Except Fail (Cfg × Fs)) : Option (Str × List Path) :=
  match r with
  | .ok (cfg, z) => some (cfg.mainRoot, z.map (·.1))
  | .error _ => none

/-- the hypotheses of `bundle_eval_eq` are satisfiable by a non-trivial layout: the archive has the
configuration, the sentinel and the three scripts under /module/ex.com/m -/
example :
    summary (bundle sem0 fs0 main0 5) = some ("ex.com/m".toList,
         [ ["module".toList, "ex.com".toList, "m".toList, "go.mod".toList],
           ["module".toList, "ex.com".toList, "m".toList, "main.arrai".toList],
           ["config.arrai".toList],
           ["module".toList, "ex.com".toList, "m".toList, "a.arrai".toList],
           ["module".toList, "ex.com".toList, "m".toList, "lib".toList, "b.arrai".toList] ]) := by decide

/-- before the repair of `addModuleSentinel`: for a main script without a module, the sentinel of a nested
module went under /module while the module's files are under /unnamed, so the runtime, walking up from
/unnamed/sub, found no module root; with the repaired placement it finds /unnamed/sub -/
theorem nested_sentinel_before_repair :
    let cfg : Cfg := { mainRoot := [], pfx := [noModuleDir], mainFile := [noModuleDir, "main.arrai".toList],
                       absRoot := ["srv".toList, "m".toList] }
    let root : Path := ["srv".toList, "m".toList, "sub".toList]
    let c : Content := { bytes := [], imps := [], val := 0 }
    let files : Fs := [([noModuleDir, "main.arrai".toList], c), ([noModuleDir, "sub".toList, "b.arrai".toList], c)]
    Unrepaired.sentinelLoc cfg root = [moduleDir, "sub".toList, "go.mod".toList] ∧
    findRootC (files ++ [(Unrepaired.sentinelLoc cfg root, c)]) (mapPath cfg root) = none ∧
    findRootC (files ++ [(mapPath cfg (root ++ [sentinel]), c)]) (mapPath cfg root) = some (mapPath cfg root) := by
  decide

/-! ### regenerated facts: the bundle path reads only through the source file system of the context -/

/-- the only direct I/O on the import/bundle path is the URL fetch and `go mod download` … -/
theorem facts_direct_io : Arrai.Facts.Generated.c15_direct_io = Arrai.C15.Expected.direct_io := by decide

/-- … and both are behind `if isRunningBundle(ctx) { … return … }`: a running bundle never reaches them -/
theorem facts_guarded : Arrai.Facts.Generated.c15_guarded = Arrai.C15.Expected.guarded := by decide

end Arrai.C15.Theorems
