import Arrai.C17.Model
namespace Arrai.C17.Theorems
end Arrai.C17.Theorems
