/-
  C17 — the server engine applies updates atomically, in order, and never wedges.

  Property theorems only (model: Arrai/C17/Model.lean and Arrai/C17/Conc.lean, helper lemmas:
  Arrai/C17/Lemmas.lean).  Parts 1–5 quantify over every type `S` of database values, every initial
  value, every finite history (list of messages accepted by the loop), every expression
  (`S → Option S`), every callback script — including callbacks that fail, panic, or have their own
  cancel function called while they run — and every enumeration order of the watcher map.  Part 7
  discharges the concurrency quantifier: every execution of any number of concurrent clients under
  any schedule is such a history (an interleaving of the clients' call sequences), and what each
  client gets back is a function of that history alone.

  `Impl` is the repaired loop.  `Prev` (before the re-entrant-cancel repair) and `Old` (before any
  repair) are kept so that the defects stay machine-checked (part 6).
-/
import Arrai.C17.Conc

namespace Arrai.C17.Theorems
open Arrai.C17

variable {S : Type}

/-- the second invocation of observer 1's callback calls its own cancel function -/
def reentrant : List (Msg Nat) :=
  [.add (fun s => some s) [.ok, .reenter], .add (fun s => some s) [],
   .update (fun _ => some 1) [], .update (fun _ => some 2) []]

/-- a history that exercises everything: failing and state-dependent expressions, callbacks that
return an error, panic or cancel themselves, cancel twice, cancel of an unknown id, hang-up -/
def eventful : List (Msg Nat) :=
  [.add (fun _ => none) [], .update (fun s => some (s + 1)) [], .add (fun s => some s) [.ok, .err],
   .add (fun s => if s % 2 = 0 then some s else none) [.panic], .add (fun s => some (2 * s)) [],
   .add (fun s => some s) [.ok, .reenter],
   .update (fun s => some (s + 1)) [1], .update (fun _ => none) [], .remove 4, .remove 4, .remove 9,
   .update (fun s => some (s + 1)) [], .hangup [], .add (fun s => some s) [], .update (fun s => some (s + 1)) []]

/-- the model on that history (sanity check of the definitions the theorems are about) -/
example : Impl.replies (Impl.run 0 eventful) = [true, true, false, true, true]
    ∧ Impl.log (Impl.run 0 eventful) 2 = [.val 1, .val 2, .closed true]
    ∧ Impl.log (Impl.run 0 eventful) 4 = [.val 2, .val 4, .closed false]
    ∧ Impl.log (Impl.run 0 eventful) 5 = [.val 1, .val 2, .closed false] := by decide

/-! ### Part 0 — the model of Go's unspecified map iteration order -/

theorem enumeration_is_permutation {α : Type} (code : List Nat) (l : List α) : (permBy code l).Perm l :=
  permBy_perm code l

/-- and every enumeration order of the map is chosen by some code: quantifying over codes is quantifying
over all orders in which Go may range over the map -/
theorem every_enumeration_has_a_code {α : Type} (l l' : List α) (h : l'.Perm l) : ∃ code, permBy code l = l' :=
  permBy_complete l' l h

/-! ### Part 1 — the loop never crashes and never wedges -/

theorem no_crash (g0 : S) (h : List (Msg S)) : (Impl.run g0 h).status ≠ .crashed :=
  Impl.runFrom_status h (Impl.init g0) (fun e => Impl.Status.noConfusion e)

/-- after every history the loop is back at its `select` -/
theorem no_wedge (g0 : S) (h : List (Msg S)) : (Impl.run g0 h).status = .running :=
  (Impl.run_refines g0 h).1.run

/-- callbacks may call the observation's own cancel function from `onclose` as well (any number of times,
for every reason of closing): at each place where the loop calls `onclose` the watcher is busy or
cancelled, so that call returns without sending.  `Impl.wUpdate` records for every `onclose` whether such
a call would go on to the send (`blocked`), so `no_wedge` and all theorems below hold for callbacks that
cancel from `onupdate`, from `onclose`, from both, and repeatedly. -/
theorem cancel_inside_onclose_returns : ∀ st ∈ Impl.closeSiteStates, Impl.cancelSends st = false := by decide

/-! ### Part 2 — the loop refines the sequential specification -/

theorem refines (g0 : S) (h : List (Msg S)) : abs (Impl.run g0 h) = Spec.run g0 h :=
  (Impl.run_refines g0 h).2

/-- `Stop` closes exactly the observers that are still live -/
theorem stop_refines (g0 : S) (h : List (Msg S)) (ord : List Nat) :
    abs (Impl.stop (Impl.run g0 h) ord) = Spec.stop (Spec.run g0 h) := by
  obtain ⟨hI, hr⟩ := Impl.run_refines g0 h
  rw [(Impl.stop_refines _ ord hI).2, hr]

/-! ### Part 3 — every update is answered, exactly once, before anything else happens; effects in
acknowledgement order -/

theorem every_update_answered (g0 : S) (h1 : List (Msg S)) (e : S → Option S) (ord : List Nat) :
    ∃ evs, (Impl.run g0 (h1 ++ [.update e ord])).trace
        = (Impl.run g0 h1).trace ++ Impl.Out.reply (e (Impl.run g0 h1).global).isSome :: evs
      ∧ evs.filterMap Impl.replyOf = [] := by
  have hr := no_wedge g0 h1
  have : Impl.run g0 (h1 ++ [.update e ord]) = Impl.step (Impl.run g0 h1) (.update e ord) := by
    simp [Impl.run, Impl.runFrom, List.foldl_append]
  rw [this]
  exact Impl.step_update_answered _ e ord hr

/-- the database is the result of applying the accepted updates one at a time in the order of the
rendezvous (= the order of the acknowledgements), and the acknowledgements are those of that sequential run -/
theorem order (g0 : S) (h : List (Msg S)) :
    (Impl.run g0 h).global = Spec.dbAfter g0 (Spec.updates h)
    ∧ Impl.replies (Impl.run g0 h) = Spec.acks g0 (Spec.updates h) := by
  have hr := refines g0 h
  obtain ⟨h1, h2⟩ := Spec.runFrom_db_replies h (Spec.init g0)
  constructor
  · have := congrArg Spec.State.db hr
    exact this.trans h1
  · have := congrArg Spec.State.replies hr
    exact this.trans (by rw [Spec.run, h2]; rfl)

/-- exactly one reply per `Update`, none for anything else -/
theorem one_reply_per_update (g0 : S) (h : List (Msg S)) :
    (Impl.replies (Impl.run g0 h)).length = (Spec.updates h).length := by
  rw [(order g0 h).2]
  generalize Spec.updates h = us
  induction us generalizing g0 with
  | nil => rfl
  | cons e r ih =>
    simp only [Spec.acks]
    cases e g0 with
    | none => simp [ih g0]
    | some v => simp [ih v]

/-! ### Part 4 — delivery -/

/-- the observer subscribed by `add e c` after `h1` is told the value of `e` on the state at its
subscription and on every state installed afterwards, in order, until its expression fails, its
callback fails, it is cancelled (from outside or from inside its callback) or the engine hangs up;
and nothing after that -/
theorem delivery (g0 : S) (h1 : List (Msg S)) (e : S → Option S) (c : List Act) (h2 : List (Msg S)) :
    Impl.log (Impl.run g0 (h1 ++ .add e c :: h2)) ((Impl.run g0 h1).lastID + 1)
      = Spec.expectedFrom ((Impl.run g0 h1).lastID + 1) e c (Impl.run g0 h1).global h2 := by
  obtain ⟨hI, hr⟩ := Impl.run_refines g0 (h1 ++ .add e c :: h2)
  have hr1 := refines g0 h1
  have hc : (Impl.run g0 h1).lastID = (Spec.run g0 h1).count := congrArg Spec.State.count hr1
  have hd : (Impl.run g0 h1).global = (Spec.run g0 h1).db := congrArg Spec.State.db hr1
  rw [Impl.log_abs _ hI, hr, hc, hd]
  exact Spec.delivery g0 h1 e c h2

/-- in particular: an observer whose expression `f` and callback never fail and that is not cancelled is
told `f` of the state at subscription and of every state installed afterwards, in order -/
theorem delivery_live (g0 : S) (h1 : List (Msg S)) (f : S → S) (h2 : List (Msg S))
    (hq : h2.all (Spec.quiet ((Impl.run g0 h1).lastID + 1)) = true) :
    Impl.log (Impl.run g0 (h1 ++ .add (fun s => some (f s)) [] :: h2)) ((Impl.run g0 h1).lastID + 1)
      = ((Impl.run g0 h1).global :: Spec.installed (Impl.run g0 h1).global h2).map (fun s => Ev.val (f s)) := by
  rw [delivery g0 h1 _ [] h2]
  simp only [Spec.expectedFrom, List.headD_nil, List.tail_nil, List.map_cons]
  rw [Spec.expected_live _ f h2 _ hq]

/-! ### Part 5 — isolation -/

/-- what an observer is told, and every reply, depend only on that observer's view of the history: the
updates, the hang-ups, its own subscription and its own cancellations.  Other observers — whatever their
expressions and callbacks do, however often and from wherever they are cancelled, with known or unknown
ids — and the enumeration orders of the map change nothing. -/
theorem isolation (g0 : S) (j : Nat) (h h' : List (Msg S)) (hv : Spec.view j 0 h = Spec.view j 0 h') :
    Impl.log (Impl.run g0 h) j = Impl.log (Impl.run g0 h') j
    ∧ Impl.replies (Impl.run g0 h) = Impl.replies (Impl.run g0 h') := by
  obtain ⟨hI, hr⟩ := Impl.run_refines g0 h
  obtain ⟨hI', hr'⟩ := Impl.run_refines g0 h'
  obtain ⟨i1, i2⟩ := Spec.isolation g0 j h h' hv
  constructor
  · rw [Impl.log_abs _ hI, Impl.log_abs _ hI', hr, hr', i1]
  · have a := congrArg Spec.State.replies hr
    have b := congrArg Spec.State.replies hr'
    exact a.trans (i2.trans b.symm)

/-- the order in which Go enumerates the watcher map is invisible to every observer and in every reply -/
theorem enumeration_order_irrelevant (g0 : S) (j : Nat) (h : List (Msg S)) (f : List Nat → List Nat) :
    Impl.log (Impl.run g0 (h.map (Spec.reorder f))) j = Impl.log (Impl.run g0 h) j
    ∧ Impl.replies (Impl.run g0 (h.map (Spec.reorder f))) = Impl.replies (Impl.run g0 h) :=
  isolation g0 j _ h (Spec.view_reorder f j h 0)

/-- onclose is called at most once per observer, and nothing is sent to an observer after it -/
theorem closed_at_most_once (g0 : S) (h : List (Msg S)) (j : Nat) :
    Spec.noClose (Impl.log (Impl.run g0 h) j)
    ∨ ∃ l0 b, Impl.log (Impl.run g0 h) j = l0 ++ [Ev.closed b] ∧ Spec.noClose l0 := by
  obtain ⟨hI, hr⟩ := Impl.run_refines g0 h
  rw [Impl.log_abs _ hI, hr]
  have hw := Spec.run_wf g0 h j
  cases ho : (Spec.run g0 h).obs j with
  | fresh => left; intro x hx; simp [Spec.Obs.log] at hx
  | live e c l => rw [ho] at hw; left; exact hw
  | dead l => rw [ho] at hw; right; exact hw

/-- after `Stop`, every observer that ever subscribed has been closed exactly once, as the last thing it heard -/
theorem every_observer_closed_exactly_once (g0 : S) (h : List (Msg S)) (ord : List Nat)
    (j : Nat) (hj : 1 ≤ j ∧ j ≤ (Impl.run g0 h).lastID) :
    ∃ l0 b, Impl.log (Impl.stop (Impl.run g0 h) ord) j = l0 ++ [Ev.closed b] ∧ Spec.noClose l0 := by
  obtain ⟨hI, hr⟩ := Impl.run_refines g0 h
  obtain ⟨hI2, hr2⟩ := Impl.stop_refines _ ord hI
  rw [Impl.log_abs _ hI2, hr2]
  show ∃ l0 b, (((abs (Impl.run g0 h)).obs j).close).log = _ ∧ _
  have hw : ((abs (Impl.run g0 h)).obs j).WF := by rw [hr]; exact Spec.run_wf g0 h j
  rw [Impl.abs_obs] at hw ⊢
  unfold Impl.absObs at hw ⊢
  cases hg : Impl.mapGet (Impl.run g0 h).watchers j with
  | some w =>
    rw [hg] at hw
    exact ⟨_, false, rfl, hw⟩
  | none =>
    rw [hg] at hw
    simp only [hj, and_self, ↓reduceIte] at hw ⊢
    exact hw

/-! ### Part 6 — the loop before the repairs: the defects, machine-checked -/

/-- an observer whose expression fails to evaluate; then an `Update` -/
def failingObserver : List (Msg Nat) := [.add (fun _ => none) [], .update (fun _ => some 1) []]

/-- `cancel(); cancel()`; then an `Update` -/
def doubleCancel : List (Msg Nat) := [.add (fun s => some s) [], .remove 1, .remove 1, .update (fun _ => some 1) []]

/-- before any repair the loop deadlocked (blocked in its own `w.cancel()`): the observer is never told
why, and the `Update` that follows is never answered -/
theorem no_wedge_false_before_repair :
    (Old.run 0 failingObserver).status = .wedged ∧ Impl.replies (Old.run 0 failingObserver) = []
    ∧ Impl.log (Old.run 0 failingObserver) 1 = [] := by decide

/-- before any repair a second cancel dereferenced a nil watcher: the process died -/
theorem no_crash_false_before_repair :
    (Old.run 0 doubleCancel).status = .crashed ∧ Impl.replies (Old.run 0 doubleCancel) = [] := by decide

/-- before any repair an `onupdate` error deadlocked the loop as well, and an observer whose callback
panicked was closed but stayed registered: it was notified again and closed a second time -/
theorem old_callback_failures :
    (Old.run 0 ([.add (fun s => some s) [.err]] : List (Msg Nat))).status = .wedged
    ∧ Impl.log (Old.run 0 ([.add (fun s => some s) [.panic], .update (fun _ => some 1) [], .remove 1] : List (Msg Nat))) 1
        = [.val 0, .closed true, .val 1, .closed false] := by decide

/-- before the re-entrant-cancel repair (finding KF-engine-reentrant-cancel) a callback that called its own
cancel function blocked the loop in `e.removeWatcher <- id`: the observer is never closed, the other
observer misses the state installed by the same update, and the next `Update` is never answered -/
theorem no_wedge_false_before_reentrant_repair :
    (Prev.run 0 reentrant).status = .wedged
    ∧ Impl.replies (Prev.run 0 reentrant) = [true]
    ∧ Impl.log (Prev.run 0 reentrant) 1 = [.val 0, .val 1]
    ∧ Impl.log (Prev.run 0 reentrant) 2 = [.val 0] := by decide

/-- a variant that makes the watcher idle again before the `onclose(nil)` of a watcher cancelled during its
callback (`Mut`): a cancel from inside that onclose goes on to the send and blocks the loop; the update
that triggered it was already acknowledged, the next one never is -/
theorem no_wedge_false_when_idle_during_onclose :
    (Mut.run 0 reentrant).status = .wedged ∧ Impl.replies (Mut.run 0 reentrant) = [true]
    ∧ Impl.log (Mut.run 0 reentrant) 2 = [.val 0] := by decide

/-- the repaired loop on the same histories -/
theorem repaired_on_witnesses :
    (Impl.run 0 failingObserver).status = .running ∧ Impl.replies (Impl.run 0 failingObserver) = [true]
    ∧ Impl.log (Impl.run 0 failingObserver) 1 = [.closed true]
    ∧ (Impl.run 0 doubleCancel).status = .running ∧ Impl.replies (Impl.run 0 doubleCancel) = [true]
    ∧ Impl.log (Impl.run 0 doubleCancel) 1 = [.val 0, .closed false]
    ∧ (Impl.run 0 reentrant).status = .running ∧ Impl.replies (Impl.run 0 reentrant) = [true, true]
    ∧ Impl.log (Impl.run 0 reentrant) 1 = [.val 0, .val 1, .closed false]
    ∧ Impl.log (Impl.run 0 reentrant) 2 = [.val 0, .val 1, .val 2] := by decide

/-! ### Part 7 — all interleavings of concurrent clients

`Conc.run g0 progs evs`: clients `0, 1, …` run the call sequences `progs 0, progs 1, …` concurrently;
`evs` is the schedule (`call c`: client c makes its next call and blocks in its send; `accept c`: the
loop, at its `select`, takes the message of blocked client c and runs the arm).  Assumed about Go:
unbuffered channels (a call takes effect at one rendezvous; the arm, including the reply to `Update`,
runs to completion on the loop's single goroutine before the next message is accepted). -/

/-- every execution of concurrent clients under every schedule is the run of one history -/
theorem interleaving_is_history (g0 : S) (progs : Nat → List (Conc.COp S)) (evs : List Conc.Event) :
    (Conc.run g0 progs evs).eng = Impl.run g0 (Conc.history (Conc.run g0 progs evs)) :=
  (Conc.inv_run g0 progs evs).eng

/-- that history is an interleaving of the messages of the individual clients … -/
theorem history_is_merge_of_clients (g0 : S) (progs : Nat → List (Conc.COp S)) (evs : List Conc.Event) :
    Conc.Merge (fun c => ((Conc.run g0 progs evs).client c).sent) (Conc.history (Conc.run g0 progs evs)) :=
  (Conc.inv_run g0 progs evs).merge

/-- … and each client's messages are its calls, in program order: accepted ones, then the one in flight,
then those not yet made -/
theorem clients_in_program_order (g0 : S) (progs : Nat → List (Conc.COp S)) (evs : List Conc.Event) (c : Nat) :
    ((Conc.run g0 progs evs).client c).sent.map Conc.Msg.shape
      ++ (((Conc.run g0 progs evs).client c).pending.toList.map Conc.Msg.shape
      ++ ((Conc.run g0 progs evs).client c).todo.map Conc.COp.shape) = (progs c).map Conc.COp.shape :=
  (Conc.inv_run g0 progs evs).order c

/-- the results a client got from its `Update` calls depend only on the history: they are the
acknowledgements of its own updates in the sequential run of the history -/
theorem client_replies_from_history (g0 : S) (progs : Nat → List (Conc.COp S)) (evs : List Conc.Event) (c : Nat) :
    ((Conc.run g0 progs evs).client c).replies = Conc.clientReplies c g0 (Conc.run g0 progs evs).hist := by
  have := (Conc.inv_run g0 progs evs).replies c
  simp [Conc.clientReplies, this]

/-- the observations a client holds depend only on the history: its n-th accepted `Observe` is the
observation numbered by the count of `Observe`s accepted before it; what each of them is told is
`Impl.log` of the history's run (`interleaving_is_history`), given in closed form by `delivery` -/
theorem client_handles_from_history (g0 : S) (progs : Nat → List (Conc.COp S)) (evs : List Conc.Event) (c : Nat) :
    ((Conc.run g0 progs evs).client c).handles = Conc.clientHandles c (Conc.run g0 progs evs).hist := by
  have := (Conc.inv_run g0 progs evs).handles c
  simp [Conc.clientHandles, this]

/-- under every schedule the loop is at its `select` whenever it is asked: a caller blocked in its send
can always be served, and its message becomes the next element of the history -/
theorem blocked_caller_can_always_be_served (g0 : S) (progs : Nat → List (Conc.COp S)) (evs : List Conc.Event)
    (c : Nat) (m : Msg S) (hp : ((Conc.run g0 progs evs).client c).pending = some m) :
    (Conc.run g0 progs (evs ++ [.accept c])).hist = (Conc.run g0 progs evs).hist ++ [(c, m)]
    ∧ ((Conc.run g0 progs (evs ++ [.accept c])).client c).pending = none := by
  have hr : (Conc.run g0 progs evs).eng.status = .running := by
    rw [interleaving_is_history]; exact no_wedge _ _
  have : Conc.run g0 progs (evs ++ [.accept c]) = Conc.step (Conc.run g0 progs evs) (.accept c) := by
    simp [Conc.run, Conc.runFrom, List.foldl_append]
  rw [this]
  simp only [Conc.step, hr, hp, Conc.setClient, ↓reduceIte, Conc.returned_pending, and_self]

end Arrai.C17.Theorems
