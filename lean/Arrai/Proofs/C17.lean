/-
  C17 — the server engine applies updates atomically, in order, and never wedges.

  Property theorems only (model: Arrai/C17/Model.lean, helper lemmas: Arrai/C17/Lemmas.lean).
  They quantify over every type `S` of database values, every initial value, every finite list of
  messages (= every interleaving of concurrent clients, see Model.lean), every expression
  (`S → Option S`), every callback script and every enumeration order of the watcher map.

  `Impl` is the repaired loop.  The hypothesis `noReenter h` ("no callback calls the cancel function
  of its own observation") is the class of the open finding KF-engine-reentrant-cancel: for each
  `_partial` result there is a `_full` statement without it and a `_full_false` witness.  `Old` is the loop before
  the repair; part 6 machine-checks the two repaired defects on it.
-/
import Arrai.C17.Lemmas

namespace Arrai.C17.Theorems
open Arrai.C17

variable {S : Type}

/-- the open finding's witness: the second invocation of observer 1's callback calls its own cancel -/
def reentrant : List (Msg Nat) :=
  [.add (fun s => some s) [.ok, .reenter], .add (fun s => some s) [],
   .update (fun _ => some 1) [], .update (fun _ => some 2) []]

/-- the same history with a well-behaved observer 1 -/
def benign : List (Msg Nat) :=
  [.add (fun s => some s) [], .add (fun s => some s) [],
   .update (fun _ => some 1) [], .update (fun _ => some 2) []]

/-- a history satisfying `noReenter` that exercises everything else: failing and state-dependent
expressions, callbacks that return an error or panic, cancel twice, cancel of an unknown id, hang-up -/
def eventful : List (Msg Nat) :=
  [.add (fun _ => none) [], .update (fun s => some (s + 1)) [], .add (fun s => some s) [.ok, .err],
   .add (fun s => if s % 2 = 0 then some s else none) [.panic], .add (fun s => some (2 * s)) [],
   .update (fun s => some (s + 1)) [1], .update (fun _ => none) [], .remove 4, .remove 4, .remove 9,
   .update (fun s => some (s + 1)) [], .hangup [], .add (fun s => some s) [], .update (fun s => some (s + 1)) []]

/-- every hypothesis used below is satisfiable by a non-trivial history -/
example : noReenter eventful = true ∧ Impl.replies (Impl.run 0 eventful) = [true, true, false, true, true]
    ∧ Impl.log (Impl.run 0 eventful) 2 = [.val 1, .val 2, .closed true]
    ∧ Impl.log (Impl.run 0 eventful) 4 = [.val 2, .val 4, .closed false] := by decide

/-! ### Part 0 — the model of Go's unspecified map iteration order -/

theorem enumeration_is_permutation {α : Type} (code : List Nat) (l : List α) : (permBy code l).Perm l :=
  permBy_perm code l

/-- and every enumeration order of the map is chosen by some code: quantifying over codes is quantifying
over all orders in which Go may range over the map -/
theorem every_enumeration_has_a_code {α : Type} (l l' : List α) (h : l'.Perm l) : ∃ code, permBy code l = l' :=
  permBy_complete l' l h

/-! ### Part 1 — the loop never crashes and never wedges -/

theorem no_crash (g0 : S) (h : List (Msg S)) : (Impl.run g0 h).status ≠ .crashed :=
  Impl.runFrom_status h (Impl.init g0) (fun e => Impl.Status.noConfusion e)

theorem no_wedge_partial (g0 : S) (h : List (Msg S)) (hn : noReenter h = true) :
    (Impl.run g0 h).status = .running :=
  (Impl.run_refines g0 h hn).1.run

def no_wedge_full : Prop := ∀ (g0 : Nat) (h : List (Msg Nat)), (Impl.run g0 h).status = .running

theorem no_wedge_full_false : ¬ no_wedge_full := by
  intro hf
  have := hf 0 reentrant
  revert this
  decide

/-! ### Part 2 — the loop refines the sequential specification -/

theorem refines_partial (g0 : S) (h : List (Msg S)) (hn : noReenter h = true) :
    abs (Impl.run g0 h) = Spec.run g0 h :=
  (Impl.run_refines g0 h hn).2

/-- `Stop` closes exactly the observers that are still live -/
theorem stop_refines_partial (g0 : S) (h : List (Msg S)) (ord : List Nat) (hn : noReenter h = true) :
    abs (Impl.stop (Impl.run g0 h) ord) = Spec.stop (Spec.run g0 h) := by
  obtain ⟨hI, hr⟩ := Impl.run_refines g0 h hn
  rw [(Impl.stop_refines _ ord hI).2, hr]

def refines_full : Prop := ∀ (g0 : Nat) (h : List (Msg Nat)), abs (Impl.run g0 h) = Spec.run g0 h

theorem refines_full_false : ¬ refines_full := by
  intro hf
  have := congrArg Spec.State.replies (hf 0 reentrant)
  revert this
  decide

/-! ### Part 3 — every update is answered, exactly once, before anything else happens; effects in
acknowledgement order -/

theorem every_update_answered_partial (g0 : S) (h1 : List (Msg S)) (e : S → Option S) (ord : List Nat)
    (hn : noReenter h1 = true) :
    ∃ evs, (Impl.run g0 (h1 ++ [.update e ord])).trace
        = (Impl.run g0 h1).trace ++ Impl.Out.reply (e (Impl.run g0 h1).global).isSome :: evs
      ∧ evs.filterMap Impl.replyOf = [] := by
  have hr := no_wedge_partial g0 h1 hn
  have : Impl.run g0 (h1 ++ [.update e ord]) = Impl.step (Impl.run g0 h1) (.update e ord) := by
    simp [Impl.run, Impl.runFrom, List.foldl_append]
  rw [this]
  exact Impl.step_update_answered _ e ord hr

def every_update_answered_full : Prop :=
  ∀ (g0 : Nat) (h1 : List (Msg Nat)) (e : Nat → Option Nat) (ord : List Nat),
    ∃ evs, (Impl.run g0 (h1 ++ [.update e ord])).trace
        = (Impl.run g0 h1).trace ++ Impl.Out.reply (e (Impl.run g0 h1).global).isSome :: evs
      ∧ evs.filterMap Impl.replyOf = []

theorem every_update_answered_full_false : ¬ every_update_answered_full := by
  intro hf
  obtain ⟨evs, h, _⟩ := hf 0 (reentrant.take 3) (fun _ => some 2) []
  have hl := congrArg List.length h
  have h1 : (Impl.run 0 (reentrant.take 3 ++ [Msg.update (fun _ => some 2) []])).trace.length
      = (Impl.run 0 (reentrant.take 3)).trace.length := by decide
  rw [h1, List.length_append, List.length_cons] at hl
  omega

/-- the database is the result of applying the accepted updates one at a time in the order of the
rendezvous (= the order of the acknowledgements), and the acknowledgements are those of that sequential run -/
theorem order_partial (g0 : S) (h : List (Msg S)) (hn : noReenter h = true) :
    (Impl.run g0 h).global = Spec.dbAfter g0 (Spec.updates h)
    ∧ Impl.replies (Impl.run g0 h) = Spec.acks g0 (Spec.updates h) := by
  have hr := refines_partial g0 h hn
  obtain ⟨h1, h2⟩ := Spec.runFrom_db_replies h (Spec.init g0)
  constructor
  · have := congrArg Spec.State.db hr
    exact this.trans h1
  · have := congrArg Spec.State.replies hr
    exact this.trans (by rw [Spec.run, h2]; rfl)

def order_full : Prop := ∀ (g0 : Nat) (h : List (Msg Nat)),
  (Impl.run g0 h).global = Spec.dbAfter g0 (Spec.updates h)
  ∧ Impl.replies (Impl.run g0 h) = Spec.acks g0 (Spec.updates h)

theorem order_full_false : ¬ order_full := by
  intro hf
  have := (hf 0 reentrant).1
  revert this
  decide

/-- exactly one reply per `Update`, none for anything else -/
theorem one_reply_per_update_partial (g0 : S) (h : List (Msg S)) (hn : noReenter h = true) :
    (Impl.replies (Impl.run g0 h)).length = (Spec.updates h).length := by
  rw [(order_partial g0 h hn).2]
  generalize Spec.updates h = us
  induction us generalizing g0 with
  | nil => rfl
  | cons e r ih =>
    simp only [Spec.acks]
    cases e g0 with
    | none => simp [ih g0]
    | some v => simp [ih v]

def one_reply_per_update_full : Prop := ∀ (g0 : Nat) (h : List (Msg Nat)),
  (Impl.replies (Impl.run g0 h)).length = (Spec.updates h).length

theorem one_reply_per_update_full_false : ¬ one_reply_per_update_full := by
  intro hf
  have := hf 0 reentrant
  revert this
  decide

/-! ### Part 4 — delivery -/

/-- the observer subscribed by `add e c` after `h1` is told the value of `e` on the state at its
subscription and on every state installed afterwards, in order, until its expression fails, its
callback fails, it is cancelled or the engine hangs up; and nothing after that -/
theorem delivery_partial (g0 : S) (h1 : List (Msg S)) (e : S → Option S) (c : List Act) (h2 : List (Msg S))
    (hn : noReenter (h1 ++ .add e c :: h2) = true) :
    Impl.log (Impl.run g0 (h1 ++ .add e c :: h2)) ((Impl.run g0 h1).lastID + 1)
      = Spec.expectedFrom ((Impl.run g0 h1).lastID + 1) e c (Impl.run g0 h1).global h2 := by
  obtain ⟨hI, hr⟩ := Impl.run_refines g0 _ hn
  have hn1 := ((noReenter_append h1 _).1 hn).1
  have hr1 := refines_partial g0 h1 hn1
  have hc : (Impl.run g0 h1).lastID = (Spec.run g0 h1).count := congrArg Spec.State.count hr1
  have hd : (Impl.run g0 h1).global = (Spec.run g0 h1).db := congrArg Spec.State.db hr1
  rw [Impl.log_abs _ hI, hr, hc, hd]
  exact Spec.delivery g0 h1 e c h2

def delivery_full : Prop :=
  ∀ (g0 : Nat) (h1 : List (Msg Nat)) (e : Nat → Option Nat) (c : List Act) (h2 : List (Msg Nat)),
    Impl.log (Impl.run g0 (h1 ++ .add e c :: h2)) ((Impl.run g0 h1).lastID + 1)
      = Spec.expectedFrom ((Impl.run g0 h1).lastID + 1) e c (Impl.run g0 h1).global h2

theorem delivery_full_false : ¬ delivery_full := by
  intro hf
  have := hf 0 (reentrant.take 1) (fun s => some s) [] (reentrant.drop 2)
  revert this
  decide

/-- in particular: an observer whose expression `f` and callback never fail and that is not cancelled is
told `f` of the state at subscription and of every state installed afterwards, in order -/
theorem delivery_live_partial (g0 : S) (h1 : List (Msg S)) (f : S → S) (h2 : List (Msg S))
    (hn : noReenter (h1 ++ .add (fun s => some (f s)) [] :: h2) = true)
    (hq : h2.all (Spec.quiet ((Impl.run g0 h1).lastID + 1)) = true) :
    Impl.log (Impl.run g0 (h1 ++ .add (fun s => some (f s)) [] :: h2)) ((Impl.run g0 h1).lastID + 1)
      = ((Impl.run g0 h1).global :: Spec.installed (Impl.run g0 h1).global h2).map (fun s => Ev.val (f s)) := by
  rw [delivery_partial g0 h1 _ [] h2 hn]
  simp only [Spec.expectedFrom, List.headD_nil, List.tail_nil, List.map_cons]
  rw [Spec.expected_live _ f h2 _ hq]

/-! ### Part 5 — isolation -/

/-- what an observer is told, and every reply, depend only on that observer's view of the history: the
updates, the hang-ups, its own subscription and its own cancellations.  Other observers — whatever their
expressions and callbacks do, however often they are cancelled, with known or unknown ids — and the
enumeration orders of the map change nothing. -/
theorem isolation_partial (g0 : S) (j : Nat) (h h' : List (Msg S))
    (hn : noReenter h = true) (hn' : noReenter h' = true) (hv : Spec.view j 0 h = Spec.view j 0 h') :
    Impl.log (Impl.run g0 h) j = Impl.log (Impl.run g0 h') j
    ∧ Impl.replies (Impl.run g0 h) = Impl.replies (Impl.run g0 h') := by
  obtain ⟨hI, hr⟩ := Impl.run_refines g0 h hn
  obtain ⟨hI', hr'⟩ := Impl.run_refines g0 h' hn'
  obtain ⟨i1, i2⟩ := Spec.isolation g0 j h h' hv
  constructor
  · rw [Impl.log_abs _ hI, Impl.log_abs _ hI', hr, hr', i1]
  · have a := congrArg Spec.State.replies hr
    have b := congrArg Spec.State.replies hr'
    exact a.trans (i2.trans b.symm)

def isolation_full : Prop := ∀ (g0 : Nat) (j : Nat) (h h' : List (Msg Nat)),
  Spec.view j 0 h = Spec.view j 0 h' →
    Impl.log (Impl.run g0 h) j = Impl.log (Impl.run g0 h') j
    ∧ Impl.replies (Impl.run g0 h) = Impl.replies (Impl.run g0 h')

theorem isolation_full_false : ¬ isolation_full := by
  intro hf
  have := (hf 0 2 reentrant benign rfl).2
  revert this
  decide

/-- the order in which Go enumerates the watcher map is invisible to every observer and in every reply -/
theorem enumeration_order_irrelevant_partial (g0 : S) (j : Nat) (h : List (Msg S)) (f : List Nat → List Nat)
    (hn : noReenter h = true) :
    Impl.log (Impl.run g0 (h.map (Spec.reorder f))) j = Impl.log (Impl.run g0 h) j
    ∧ Impl.replies (Impl.run g0 (h.map (Spec.reorder f))) = Impl.replies (Impl.run g0 h) :=
  isolation_partial g0 j _ h (by rw [Spec.noReenter_reorder]; exact hn) hn (Spec.view_reorder f j h 0)

/-- onclose is called at most once per observer, and nothing is sent to an observer after it -/
theorem closed_at_most_once_partial (g0 : S) (h : List (Msg S)) (hn : noReenter h = true) (j : Nat) :
    Spec.noClose (Impl.log (Impl.run g0 h) j)
    ∨ ∃ l0 b, Impl.log (Impl.run g0 h) j = l0 ++ [Ev.closed b] ∧ Spec.noClose l0 := by
  obtain ⟨hI, hr⟩ := Impl.run_refines g0 h hn
  rw [Impl.log_abs _ hI, hr]
  have hw := Spec.run_wf g0 h j
  cases ho : (Spec.run g0 h).obs j with
  | fresh => left; intro x hx; simp [Spec.Obs.log] at hx
  | live e c l => rw [ho] at hw; left; exact hw
  | dead l => rw [ho] at hw; right; exact hw

/-- after `Stop`, every observer that ever subscribed has been closed exactly once, as the last thing it heard -/
theorem every_observer_closed_exactly_once_partial (g0 : S) (h : List (Msg S)) (ord : List Nat)
    (hn : noReenter h = true) (j : Nat) (hj : 1 ≤ j ∧ j ≤ (Impl.run g0 h).lastID) :
    ∃ l0 b, Impl.log (Impl.stop (Impl.run g0 h) ord) j = l0 ++ [Ev.closed b] ∧ Spec.noClose l0 := by
  obtain ⟨hI, hr⟩ := Impl.run_refines g0 h hn
  obtain ⟨hI2, hr2⟩ := Impl.stop_refines _ ord hI
  rw [Impl.log_abs _ hI2, hr2]
  show ∃ l0 b, (((abs (Impl.run g0 h)).obs j).close).log = _ ∧ _
  have hw : ((abs (Impl.run g0 h)).obs j).WF := by rw [hr]; exact Spec.run_wf g0 h j
  rw [Impl.abs_obs] at hw ⊢
  unfold Impl.absObs at hw ⊢
  cases hg : Impl.mapGet (Impl.run g0 h).watchers j with
  | some w =>
    rw [hg] at hw
    exact ⟨_, false, rfl, hw⟩
  | none =>
    rw [hg] at hw
    simp only [hj, and_self, ↓reduceIte] at hw ⊢
    exact hw

/-! ### Part 6 — the loop before the repair (`Old`): the two defects, machine-checked -/

/-- an observer whose expression fails to evaluate; then an `Update` -/
def failingObserver : List (Msg Nat) := [.add (fun _ => none) [], .update (fun _ => some 1) []]

/-- `cancel(); cancel()`; then an `Update` -/
def doubleCancel : List (Msg Nat) := [.add (fun s => some s) [], .remove 1, .remove 1, .update (fun _ => some 1) []]

/-- before the repair the loop deadlocked (blocked in its own `w.cancel()`): the observer is never told
why, and the `Update` that follows is never answered -/
theorem no_wedge_false_before_repair :
    (Old.run 0 failingObserver).status = .wedged ∧ Impl.replies (Old.run 0 failingObserver) = []
    ∧ Impl.log (Old.run 0 failingObserver) 1 = [] := by decide

/-- before the repair a second cancel dereferenced a nil watcher: the process died -/
theorem no_crash_false_before_repair :
    (Old.run 0 doubleCancel).status = .crashed ∧ Impl.replies (Old.run 0 doubleCancel) = [] := by decide

/-- before the repair an `onupdate` error deadlocked the loop as well, and an observer whose callback
panicked was closed but stayed registered: it was notified again and closed a second time -/
theorem old_callback_failures :
    (Old.run 0 ([.add (fun s => some s) [.err]] : List (Msg Nat))).status = .wedged
    ∧ Impl.log (Old.run 0 ([.add (fun s => some s) [.panic], .update (fun _ => some 1) [], .remove 1] : List (Msg Nat))) 1
        = [.val 0, .closed true, .val 1, .closed false] := by decide

/-- the repaired loop on the same histories -/
theorem repaired_on_witnesses :
    (Impl.run 0 failingObserver).status = .running ∧ Impl.replies (Impl.run 0 failingObserver) = [true]
    ∧ Impl.log (Impl.run 0 failingObserver) 1 = [.closed true]
    ∧ (Impl.run 0 doubleCancel).status = .running ∧ Impl.replies (Impl.run 0 doubleCancel) = [true]
    ∧ Impl.log (Impl.run 0 doubleCancel) 1 = [.val 0, .closed false] := by decide

end Arrai.C17.Theorems
