/-
  C20 — `arrai test` passes exactly when every leaf of every test file is the literal true.

  Property theorems only (helper lemmas: Arrai/C20/Lemmas.lean).  `Impl` transliterates pkg/test
  (ForeachLeaf as repaired, isLiteralTrue/False, RunExpr, runFile, getTestFiles, RunTests, calcStats,
  Report's verdict); `Spec` is the census of leaves by structured path, the navigation `subtree`,
  the test-file predicate `Under`/`IsTestFile`, and the outcome a leaf must get.
  Part 1: ForeachLeaf reports each leaf once, under its path.
  Part 2: getTestFiles finds exactly the test files.
  Part 3: the verdict, the counts, nothing skipped silently, ignored results.
  Part 4: on clean trees the transliteration computes the specified run; no panic on canonical values.
-/
import Arrai.C20.Lemmas

namespace Arrai.C20.Theorems
open Arrai.C20 Arrai.C20.Spec

/-! ### Part 1 — leaves -/

/-- ForeachLeaf calls the leaf action exactly on the specified leaves, in the specified order,
whatever the tree (sparse/offset arrays, sets and relations as leaves, any nesting) and path prefix -/
theorem leaves_spec (t : Tree) (p : Name) :
    (Impl.foreachLeaf t p).map Prod.snd = (leaves t).map Prod.snd :=
  foreachLeaf_snd t p

/-- … and the path it hands over is the rendered structured path (full statement) -/
def leaves_paths_full : Prop :=
  ∀ t : Tree, Impl.foreachLeaf t [] = (leaves t).map (fun pl => (render pl.1, pl.2))

theorem leaves_paths_partial (t : Tree) (h : namesOk t = true) :
    Impl.foreachLeaf t [] = (leaves t).map (fun pl => (render pl.1, pl.2)) :=
  foreachLeaf_root t h

/-- `('': (b: true))`: TrimPrefix at every level drops the empty attribute name -/
theorem leaves_paths_full_false : ¬ leaves_paths_full := by
  intro h
  have := h (.tup [([], .tup [(['b'], .leaf .trueSet)])])
  revert this
  decide

example : namesOk (.tup [(['a'], .arr 2 [some (.leaf .trueSet), none, some (.dict [(.num 1, .leaf .other)])])])
    = true := by decide

/-- a path that leads to a leaf is reported -/
theorem leaf_of_path (t : Tree) (p : Path) (l : Leaf) (h : subtree t p = some (.leaf l)) :
    (p, l) ∈ leaves t :=
  mem_of_get t p l h

def path_of_leaf_full : Prop :=
  ∀ (t : Tree) (p : Path) (l : Leaf), (p, l) ∈ leaves t → subtree t p = some (.leaf l)

/-- every reported path leads to the reported leaf (tuples and dictionaries are maps: `wf`) -/
theorem path_of_leaf_partial (t : Tree) (hw : wf t = true) (p : Path) (l : Leaf) (h : (p, l) ∈ leaves t) :
    subtree t p = some (.leaf l) :=
  get_of_mem t hw p l h

theorem path_of_leaf_full_false : ¬ path_of_leaf_full := by
  intro h
  have := h (.tup [(['a'], .leaf .trueSet), (['a'], .leaf .emptySet)]) [.attr ['a']] .emptySet (by decide)
  have e : subtree (.tup [(['a'], .leaf .trueSet), (['a'], .leaf .emptySet)]) [.attr ['a']]
      = some (.leaf .trueSet) := by simp [subtree, lookupAttr]
  rw [e] at this
  cases this

def leaves_once_full : Prop := ∀ t : Tree, ((leaves t).map Prod.fst).Nodup

/-- no path is reported twice -/
theorem leaves_once_partial (t : Tree) (hw : wf t = true) : ((leaves t).map Prod.fst).Nodup :=
  nodup_leaves t hw

theorem leaves_once_full_false : ¬ leaves_once_full := by
  intro h
  have := h (.tup [(['a'], .leaf .trueSet), (['a'], .leaf .emptySet)])
  revert this
  decide

example : wf (.tup [(['a'], .arr 2 [some (.leaf .trueSet), none, some (.dict [(.num 1, .leaf .other)])]),
    (['b'], .leaf .emptySet)]) = true := by decide

/-- for EVERY tree — also when a dictionary holds several values under one key (`{k: v} | {k: v'}`) —
the reported (path, leaf) pairs are exactly the leaves reached through the members: every
(key, value) pair of a dictionary is a member under the key's path -/
theorem leaf_iff_reaches (t : Tree) (p : Path) (l : Leaf) : (p, l) ∈ leaves t ↔ Reaches t p (.leaf l) :=
  ⟨reaches_of_mem t p l, mem_of_reaches t p l⟩

/-- the leaves of a dictionary are, entry by entry, the leaves of each value under its key's step:
entries sharing a key share path prefixes (so two results may carry one name) but none is dropped,
and the number of leaves is the sum over the entries -/
theorem dict_leaves (es : List (Key × Tree)) :
    leaves (.dict es) = es.flatMap (fun e => (leaves e.2).map (pre (.key e.1))) ∧
    (leaves (.dict es)).length = (es.map (fun e => (leaves e.2).length)).sum := by
  have h : leaves (.dict es) = es.flatMap (fun e => (leaves e.2).map (pre (.key e.1))) := by
    rw [leaves, leavesEntries_flatMap]
  refine ⟨h, ?_⟩
  rw [h, List.length_flatMap]
  simp

/-- the multiset of reported (name, leaf) pairs of a dictionary does not depend on the order in which
its entries are enumerated (Go: `OrderedEntries`), repeated keys included: it is the specified one -/
theorem dict_report_multiset (es es' : List (Key × Tree)) (h : es.Perm es')
    (hn : namesOk (.dict es') = true) :
    (Impl.foreachLeaf (.dict es') []).Perm ((leaves (.dict es)).map (fun pl => (render pl.1, pl.2))) := by
  rw [leaves_paths_partial _ hn]
  apply List.Perm.map
  rw [(dict_leaves es).1, (dict_leaves es').1]
  exact (List.Perm.flatMap_right _ h).symm

/-! ### Part 2 — test files -/

/-- getTestFiles' walk finds exactly the files whose path ends in `_test.arrai` and that are not
below (or in) a hidden directory, for every directory layout -/
theorem test_files_spec (n : Node) (path : Name) (f : TestFile) :
    f ∈ Impl.walk n path ↔ Under n path f :=
  walk_iff n path f


/-! ### Part 3 — verdict, counts, nothing skipped -/

/-- `arrai test <path>` succeeds iff there is at least one test file under the target, every test
file compiles and evaluates, and every leaf of every test file is the literal true (`rel.TrueSet`) -/
theorem verdict_iff (w : World) (path : Name) :
    (Impl.runTests w path).passed = true ↔
      (∃ f, IsTestFile w path f) ∧
      ∀ f, IsTestFile w path f → ∃ t, f.content = some t ∧ ∀ pl ∈ leaves t, pl.2 = .trueSet := by
  rw [passed_iff]
  constructor
  · rintro ⟨n, hl, hne, hall⟩
    refine ⟨?_, ?_⟩
    · obtain ⟨f, hf⟩ := List.exists_mem_of_ne_nil _ hne
      exact ⟨f, n, hl, (walk_iff n _ f).1 hf⟩
    · rintro f ⟨n', hl', hu⟩
      rw [hl] at hl'
      cases hl'
      exact hall f ((walk_iff n _ f).2 hu)
  · rintro ⟨⟨f0, n, hl, hu0⟩, hall⟩
    refine ⟨n, hl, List.ne_nil_of_mem ((walk_iff n _ f0).2 hu0), ?_⟩
    intro f hf
    exact hall f ⟨n, hl, (walk_iff n _ f).1 hf⟩

/-- a test file that does not compile, or any leaf that is false, a non-boolean (number, string, set,
relation, function …) or fails to evaluate, anywhere in any test file, makes the run fail -/
theorem no_silent_skip (w : World) (path : Name) (f : TestFile) (hf : IsTestFile w path f)
    (hbad : f.content = none ∨ ∃ t pl, f.content = some t ∧ pl ∈ leaves t ∧ pl.2 ≠ .trueSet) :
    (Impl.runTests w path).passed = false := by
  cases hp : (Impl.runTests w path).passed with
  | false => rfl
  | true =>
    obtain ⟨t, hc, hall⟩ := ((verdict_iff w path).1 hp).2 f hf
    rcases hbad with h | ⟨t', pl, hc', hpl, hne⟩
    · rw [h] at hc; cases hc
    · rw [hc] at hc'
      cases hc'
      exact absurd (hall pl hpl) hne

/-- under package rel's representation invariant (a GenericSet is neither `{}` nor `{()}`) "is
`rel.TrueSet`" means "denotes `{()}`" -/
theorem literal_true_iff_denotes (l : Leaf) (h : l.canonical = true) : l = .trueSet ↔ l.isTrue = true := by
  cases l with
  | genericSet s => cases s <;> simp_all [Leaf.canonical, Leaf.isTrue]
  | _ => simp [Leaf.isTrue]

example : Leaf.canonical (.genericSet .proper) = true := by decide

/-- calcStats: the four counters add up to the total, which is the number of results; the run
fails iff some result is Failed or Invalid — an Ignored result is counted and never fails the run -/
theorem counts_add_up (files : List FileRun) :
    (Impl.calcStats files).passed + (Impl.calcStats files).failed + (Impl.calcStats files).invalid
        + (Impl.calcStats files).ignored = (Impl.calcStats files).total ∧
    (Impl.calcStats files).total = (files.map (fun f => f.results.length)).sum ∧
    ((Impl.calcStats files).runFailed = true ↔
        ∃ f ∈ files, ∃ r ∈ f.results, r.outcome = .failed ∨ r.outcome = .invalid) := by
  refine ⟨?_, ?_, calcStats_runFailed files⟩
  · rw [calcStats_eq_spec]
    simp only [Spec.stats]
    induction files with
    | nil => simp [countOutcome]
    | cons f fs ih =>
      simp only [countOutcome_cons, List.map_cons, List.sum_cons]
      have : cnt .passed f.results + cnt .failed f.results + cnt .invalid f.results + cnt .ignored f.results
          = f.results.length := by
        generalize f.results = rs
        induction rs with
        | nil => simp [cnt]
        | cons r rs ih2 =>
          simp only [cnt_cons, List.length_cons]
          cases r.outcome <;> simp <;> omega
      omega
  · rw [calcStats_eq_spec]
    rfl

/-- what the code does with Ignored results (which only a caller of Report could supply): they are
counted, and a run whose results are all Passed or Ignored does not fail -/
theorem ignored_does_not_fail (files : List FileRun)
    (h : ∀ f ∈ files, ∀ r ∈ f.results, r.outcome = .passed ∨ r.outcome = .ignored) :
    (Impl.calcStats files).runFailed = false := by
  cases hrf : (Impl.calcStats files).runFailed with
  | false => rfl
  | true =>
    obtain ⟨f, hf, r, hr, hbad⟩ := (calcStats_runFailed files).1 hrf
    rcases h f hf r hr with e | e <;> rw [e] at hbad <;> simp at hbad

/-- when RunTests reports, the summary counts are the numbers of leaves of the test files, by the
outcome each leaf must get; RunTests itself never produces an Ignored result -/
theorem counts_are_leaf_counts (w : World) (path : Name) (runs : List FileRun) (st : Stats)
    (h : Impl.runTests w path = .reported runs st) :
    ∃ n, w.lstat (Impl.targetPath w path) = some n ∧
      let os := ((Impl.walk n (Impl.targetPath w path)).map leafOutcomes).flatten
      st.total = os.length ∧
      st.passed = (os.filter (fun x => x = .passed)).length ∧
      st.failed = (os.filter (fun x => x = .failed)).length ∧
      st.invalid = (os.filter (fun x => x = .invalid)).length ∧
      st.ignored = 0 := by
  obtain ⟨n, hl, _, hruns, hst⟩ := (runTests_reported_iff w path runs st).1 h
  obtain ⟨hgood, rfl⟩ := (runFiles_ok_iff _ runs).1 hruns
  refine ⟨n, hl, ?_⟩
  rw [hst, calcStats_eq_spec]
  simp only [Spec.stats]
  refine ⟨total_runs _ hgood, countOutcome_runs _ _ hgood, countOutcome_runs _ _ hgood,
    countOutcome_runs _ _ hgood, ?_⟩
  rw [countOutcome_runs _ _ hgood]
  exact no_ignored _ (leafOutcomes_ne_ignored _)

/-- when RunTests reports, it reports every test file, in walk order, with exactly one result per
leaf, in leaf order, carrying the outcome the leaf must get: nothing dropped, nothing added -/
theorem report_complete (w : World) (path : Name) (runs : List FileRun) (st : Stats)
    (h : Impl.runTests w path = .reported runs st) :
    ∃ n, w.lstat (Impl.targetPath w path) = some n ∧
      runs.map (·.path) = (Impl.walk n (Impl.targetPath w path)).map (·.path) ∧
      runs.map (fun r => r.results.map (·.outcome)) = (Impl.walk n (Impl.targetPath w path)).map leafOutcomes ∧
      st = Spec.stats runs := by
  obtain ⟨n, hl, _, hruns, hst⟩ := (runTests_reported_iff w path runs st).1 h
  obtain ⟨hgood, rfl⟩ := (runFiles_ok_iff _ runs).1 hruns
  refine ⟨n, hl, ?_, ?_, by rw [hst, calcStats_eq_spec]⟩
  · rw [List.map_map]
    apply List.map_congr_left
    intro f _
    simp only [Function.comp, runOf]
    cases f.content <;> rfl
  · rw [List.map_map]
    apply List.map_congr_left
    intro f hf
    exact runOf_outcomes (hgood f hf)

/-! ### Part 4 — the transliteration computes the specified run -/

def run_spec_full : Prop := ∀ (w : World) (path : Name), Impl.runTests w path = Spec.run w path

/-- for plain attribute names (non-empty, no leading dot) and canonical leaf representations,
RunTests + Report produce exactly the specified run: same error, or the same files, names,
outcomes and statistics -/
theorem run_spec_partial (w : World) (path : Name)
    (h : ∀ f, IsTestFile w path f → ∀ t, f.content = some t → Clean t) :
    Impl.runTests w path = Spec.run w path := by
  unfold Impl.runTests Spec.run Impl.getTestFiles
  cases hl : w.lstat (Impl.targetPath w path) with
  | none => rfl
  | some n =>
    simp only
    by_cases he : (Impl.walk n (Impl.targetPath w path)).isEmpty = true
    · simp [he]
    · have he' : (Impl.walk n (Impl.targetPath w path)).isEmpty = false := by simpa using he
      simp only [he', Bool.false_eq_true, if_false]
      rw [runFiles_clean _ (fun f hf t hc => h f ⟨n, hl, (walk_iff n _ f).1 hf⟩ t hc)]
      cases Spec.firstBad (Impl.walk n (Impl.targetPath w path)) with
      | some p => rfl
      | none => simp [calcStats_eq_spec]

/-- the names a run reports (projection used by the counterexample below) -/
def reportedNames : Run → List (List Name)
  | .reported fs _ => fs.map (fun f => f.results.map (·.name))
  | .error _ => []

theorem run_spec_full_false : ¬ run_spec_full := by
  intro h
  have := congrArg reportedNames (h ⟨['/'], fun _ => some (.file ['x']
    (some (.tup [([], .tup [(['b'], .leaf .trueSet)])])))⟩ "/a_test.arrai".toList)
  revert this
  decide

example : Clean (.tup [(['a'], .arr 2 [some (.leaf .trueSet), none, some (.leaf (.genericSet .proper))])]) :=
  ⟨by decide, by decide⟩

/-- on canonical values isLiteralTrue's panic ("true set is not of type TrueSet") is unreachable -/
theorem no_crash_of_canonical (w : World) (path : Name)
    (h : ∀ f, IsTestFile w path f → ∀ t, f.content = some t → ∀ pl ∈ leaves t, pl.2.canonical = true) :
    Impl.runTests w path ≠ .error .crash := by
  intro hc
  unfold Impl.runTests Impl.getTestFiles at hc
  cases hl : w.lstat (Impl.targetPath w path) with
  | none => simp [hl] at hc
  | some n =>
    simp only [hl] at hc
    by_cases he : (Impl.walk n (Impl.targetPath w path)).isEmpty = true
    · simp [he] at hc
    · have he' : (Impl.walk n (Impl.targetPath w path)).isEmpty = false := by simpa using he
      simp only [he', Bool.false_eq_true, if_false] at hc
      cases hr : Impl.runFiles (Impl.walk n (Impl.targetPath w path)) with
      | ok rs => simp [hr] at hc
      | error e =>
        simp only [hr, Run.error.injEq] at hc
        subst hc
        obtain ⟨f, hf, t, hct, hn⟩ := runFiles_crash hr
        apply hn
        intro pl hpl e
        have := h f ⟨n, hl, (walk_iff n _ f).1 hf⟩ t hct pl hpl
        rw [e] at this
        cases this

/-! ### the discovery rule, pinned -/

/-- "hidden" is exactly "the name starts with a dot": `_wip`, `testdata`, `vendor`, `node_modules` …
are walked like any other directory -/
theorem hidden_iff_dot (n : Name) : isHidden n = true ↔ ∃ r, n = '.' :: r := by
  cases n with
  | nil => simp [isHidden]
  | cons c r => simp [isHidden]

/-- only directories are tested for the dot: a file is a test file iff its path has the suffix,
whatever its name (hidden files included) -/
theorem file_found_iff_suffix (n : Name) (c : Option Tree) (path : Name) (f : TestFile) :
    f ∈ Impl.walk (.file n c) path ↔ isTestPath path = true ∧ f = ⟨path, c⟩ := by
  by_cases h : isTestPath path = true <;> simp [Impl.walk, h]

/-- a directory whose name does not start with a dot hides nothing: the test files found under it
are exactly those found under its children -/
theorem visible_dir_walked (n : Name) (ch : List Node) (path : Name) (f : TestFile)
    (hn : ∀ r, n ≠ '.' :: r) :
    f ∈ Impl.walk (.dir n ch) path ↔ ∃ c ∈ ch, f ∈ Impl.walk c (joinPath path c.name) := by
  have hh : isHidden n = false := by
    cases h : isHidden n with
    | false => rfl
    | true => obtain ⟨r, hr⟩ := (hidden_iff_dot n).1 h; exact absurd hr (hn r)
  simp only [Impl.walk, hh, Bool.false_eq_true, if_false, walkAll_iff]
  constructor
  · rintro ⟨c, hc, hu⟩; exact ⟨c, hc, (walk_iff c _ f).2 hu⟩
  · rintro ⟨c, hc, hu⟩; exact ⟨c, hc, (walk_iff c _ f).1 hu⟩

end Arrai.C20.Theorems
