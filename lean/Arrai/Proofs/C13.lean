/-
  C13 — data codecs round-trip: JSON, YAML, CSV, //bits and the server wire format.

  Property theorems only (helper lemmas: Arrai/C13/Lemmas.lean).  `Impl.*` transliterates the (repaired)
  Go code; a document is its tree `J` (the text layers encoding/json, yaml.v3, UTF-8 are trusted and
  validated by the correspondence run); values are `R`, by Go representation type.

  Part 1  JSON/YAML, tree level (YAML shares ToArrai/FromArrai).
  Part 2  "rejected, not silently changed": strict encoding.
  Part 3  server wire format (rel/json.go).
  Part 4  //bits.
  Part 5  //encoding.csv against a character-level model of encoding/csv.
  Every `_partial` theorem has a decidable guard, a `_full_false` witness that the unguarded statement is
  false of today's code (the known findings), and an `example` that the guard is satisfiable.
-/
import Arrai.C13.Lemmas

namespace Arrai.C13.Theorems
open Arrai.C13 Arrai.C13.Impl Arrai.C13.Spec

/-! ### Part 1 — JSON / YAML round trips -/

/-- decode (strict) then encode returns the document, duplicate keys resolved — for ALL documents
(nested, empty containers, null, booleans, numbers, strings incl. the empty key) -/
theorem json_strict_rt (j : J) : fromArrai true (toArrai true j) = .ok j.norm := rt_strict j

/-- … which is the document itself when no object binds a key twice -/
theorem json_strict_rt_same (j : J) (h : j.hasDupKeys = false) : fromArrai true (toArrai true j) = .ok j := by
  rw [rt_strict j, norm_eq_self j h]

example : (J.obj [([97], .num 1), ([98], .obj [([97], .null)])]).hasDupKeys = false := by decide

/-- decode ∘ encode ∘ decode = decode, strict mode, all documents -/
theorem json_idem_strict (j : J) : reDecode true j = .ok (toArrai true j) := by
  simp [reDecode, rt_strict, toArrai_norm]

/-- non-strict decode then encode: what comes back (`false`, `""`, `[]`, `{}` become `null`) -/
theorem json_nonstrict_rt (j : J) : fromArrai false (toArrai false j) = .ok j.nsNorm := rt_nonstrict j

/-- decode ∘ encode ∘ decode = decode, non-strict mode, for documents without `false`, `""`, `[]`, `{}` -/
theorem json_idem_nonstrict_partial (j : J) (h : j.hasEmptyish = false) :
    reDecode false j = .ok (toArrai false j) := by
  simp [reDecode, rt_nonstrict, nsNorm_eq_norm j h, toArrai_norm]

/-- the full-strength statement `json_idem_nonstrict_partial` falls short of -/
def json_idem_nonstrict_full : Prop := ∀ j : J, reDecode false j = .ok (toArrai false j)

/-- … and it is false of today's code: `false` decodes to `{}`, encodes as `null`, decodes to `()`
(KF-json-nonstrict-empty) -/
theorem json_idem_nonstrict_full_false : ¬ json_idem_nonstrict_full := by
  intro h
  have e : Out.ok (R.tuple []) = Out.ok R.empty := h (.bool false)
  cases e

example : (J.obj [([107], .arr [.num 1, .str [97], .null, .bool true])]).hasEmptyish = false := by decide

/-! ### Part 2 — values a codec cannot represent are rejected, not silently changed -/

/-- the (repaired) encoder has no panic site: any value gives a document or an error
(`{1: 2}` and `(b: 1)` used to panic) -/
theorem json_encode_never_panics (strict : Bool) (v : R) : fromArrai strict v ≠ .panic :=
  (fromArrai_ne_panic strict v).1

/-- a dict with a non-string key is rejected -/
theorem json_nonstring_key_rejected (strict : Bool) (n : Int) (v : R) (r : List (R × R)) :
    fromArrai strict (.dict ((.num n, v) :: r)) = .err := by
  have hv := (fromArrai_ne_panic strict v).1
  have hr := fromEntries_ne_panic strict r
  simp only [fromArrai, fromEntries, entryStep, keyData]
  cases h1 : fromArrai strict v <;> cases h2 : fromEntries strict r <;> simp_all [Out.map]

/-- strict encoding is faithful on values without plain sets and offsets: if it succeeds, decoding the
document gives the value back (in its strictly tagged form) — so such a value is rejected or preserved -/
theorem json_rejects_partial (v : R) (hv : strictOk v = true) (j : J) (h : fromArrai true v = .ok j) :
    toArrai true j = tag v := rejects v hv j h

/-- the class is not an artefact: every strictly decoded value lies in it (so `json_rejects_partial`
covers all values a document can denote) -/
theorem json_decoded_in_class (j : J) : strictOk (toArrai true j) = true := strictOk_toArrai j

/-- the full-strength statement: every value is rejected or preserved -/
def json_rejects_full : Prop := ∀ (v : R) (j : J), fromArrai true v = .ok j → toArrai true j = tag v

/-- … false of today's code: the plain set `{1, 2}` encodes as `{}` (KF-json-strict-sets) -/
theorem json_rejects_full_false : ¬ json_rejects_full := by
  intro h
  have e : R.empty = R.gset [.num 1, .num 2] := h (.gset [.num 1, .num 2]) (.obj []) rfl
  cases e

/-- … and an offset string loses its offset (KF-codec-offsets) -/
theorem json_offset_dropped : fromArrai true (.tuple [(kS, .str 2 [97, 98])]) = .ok (.str [97, 98])
    ∧ toArrai true (.str [97, 98]) = .tuple [(kS, .str 0 [97, 98])] := ⟨rfl, rfl⟩

example : strictOk (.dict [(.str 0 [107], .tuple [(kA, .arr 0 [.num 1, .tuple [(kS, .str 0 [97])], .tuple [],
    .tuple [(kB, .tt)]])]), (.empty, .str 0 [120])]) = true := by decide

/-! ### Part 3 — the server wire format -/

/-- what an observer receives equals what the server serialised, for every value whose sets are
arrays, strings and booleans (tuples nested arbitrarily) -/
theorem wire_rt_partial (v : R) (h : wireOk v = true) : Wire.roundTrip v = .ok v := wire_rt v h

def wire_rt_full : Prop := ∀ v : R, Wire.roundTrip v = .ok v

/-- false of today's code: a set that is not an array comes back as an array (KF-wire-sets) -/
theorem wire_rt_full_false : ¬ wire_rt_full := by
  intro h
  have e : Out.ok (R.arr 0 [.num 1, .num 2]) = Out.ok (R.gset [.num 1, .num 2]) := h (.gset [.num 1, .num 2])
  cases e

/-- … so does a dict -/
theorem wire_dict_becomes_array :
    Wire.roundTrip (.dict [(.str 0 [107], .num 1)]) = .ok (.arr 0 [.entryT (.str 0 [107]) (.num 1)]) := rfl

/-- … and an attribute named `{||}` is misread (KF-wire-reserved-name) -/
theorem wire_reserved_name : Wire.roundTrip (.tuple [(kSet, .arr 0 [.num 1])]) = .err := rfl

example : wireOk (.tuple [([97], .arr 0 [.str 0 [120], .tt, .empty, .tuple [], .num 5]), ([98], .itemT 1 (.num 2))])
    = true := by decide

/-! ### Part 4 — //bits -/

/-- `//bits.mask(//bits.set(n)) = n` -/
theorem bits_mask_set (n : Nat) (h : n < 2 ^ 53) : (Bits.set n).map Bits.mask = .ok n := by
  have : n < 2 ^ 63 := Nat.lt_of_lt_of_le h (Nat.pow_le_pow_right (by omega) (by omega))
  simp [Bits.set, this, Bits.mask_setLoop]

/-- `//bits.set(//bits.mask(S)) = S` for a set `S ⊂ [0, 53)` (listed in increasing order) -/
theorem bits_set_mask (S : List Nat) (hs : S.Pairwise (· < ·)) (hb : ∀ x ∈ S, x < 53) :
    Bits.set (Bits.mask S) = .ok S := by
  have h1 : Bits.mask S < 2 ^ 53 := Bits.mask_lt hs hb
  have : Bits.mask S < 2 ^ 63 := Nat.lt_of_lt_of_le h1 (Nat.pow_le_pow_right (by omega) (by omega))
  simp [Bits.set, this, Bits.setLoop_mask S hs]

example : [0, 2, 52].Pairwise (· < ·) ∧ (∀ x ∈ [0, 2, 52], x < 53) ∧ 5 < 2 ^ 53 := by decide

/-- an integer the `int` conversion cannot hold is rejected (used to panic for non-integers) -/
theorem bits_set_rejects_large (n : Nat) (h : 2 ^ 63 ≤ n) : Bits.set n = .err := by
  have : ¬ n < 2 ^ 63 := by omega
  simp [Bits.set, this]

/-! ### Part 5 — //encoding.csv -/

/-- character level, for EVERY valid separator (`fieldNeedsQuotes comma field` tests the configured comma):
encoding/csv's reader returns the records its writer was given, for every rectangular matrix of strings
without "\r\n" inside a field and without rows `[]` / `[""]` -/
theorem csv_text_rt_partial (sep : Nat) (hs : Csv.ValidSep sep) (m : List (List Key)) (h : csvOk m = true) :
    Csv.parse sep (Csv.writeAll sep m) = .ok m := Csv.parse_writeAll sep hs m h

/-- value level: `decoder((comma: c))(encoder((comma: c))(m)) = m` on that class, for every valid separator
(incl. the default `,` and the empty matrix, repaired) -/
theorem csv_rt_partial (sep : Nat) (hs : Csv.ValidSep sep) (m : List (List Key)) (h : csvOk m = true) :
    Csv.roundTrip sep (Csv.matrixR m) = .ok (Csv.matrixR m) := by
  simp [Csv.roundTrip, Csv.encode, Csv.matrixOf_matrixR, Csv.decode, Csv.parse_writeAll sep hs m h]

/-- a cell containing the configured separator is quoted: `[['a;b','c']]` with `;` is written `"a;b";c` -/
theorem csv_separator_cell_quoted :
    Csv.writeAll 59 [[[97, 59, 98], [99]]] = [34, 97, 59, 98, 34, 59, 99, 10] := by decide

example : Csv.ValidSep 44 ∧ Csv.ValidSep 59 ∧ Csv.ValidSep 9 ∧ Csv.ValidSep 124 ∧ Csv.ValidSep 32 :=
  ⟨⟨by decide, by decide, by decide⟩, ⟨by decide, by decide, by decide⟩, ⟨by decide, by decide, by decide⟩,
   ⟨by decide, by decide, by decide⟩, ⟨by decide, by decide, by decide⟩⟩

def csv_rt_full : Prop := ∀ m : List (List Key), Csv.roundTrip 44 (Csv.matrixR m) = .ok (Csv.matrixR m)

/-- the three excluded shapes are really lost (KF-csv-stdlib): a row `[""]` disappears … -/
theorem csv_blank_row_lost : Csv.roundTrip 44 (Csv.matrixR [[[]]]) = .ok (Csv.matrixR []) := rfl
/-- … "\r\n" inside a field comes back as "\n" … -/
theorem csv_crlf_changed :
    Csv.roundTrip 44 (Csv.matrixR [[[97, 13, 10, 98]]]) = .ok (Csv.matrixR [[[97, 10, 98]]]) := rfl
/-- … and a ragged matrix is written but cannot be read back -/
theorem csv_ragged_rejected : Csv.roundTrip 44 (Csv.matrixR [[[97], [98]], [[99]]]) = .err := rfl

theorem csv_rt_full_false : ¬ csv_rt_full := by
  intro h
  have e : Out.ok (Csv.matrixR []) = Out.ok (Csv.matrixR [[[]]]) := (csv_blank_row_lost).symm.trans (h [[[]]])
  cases e

example : csvOk [[[97], [], [34, 44, 10]], [[13], [32, 120], [92, 46]]] = true := by decide

end Arrai.C13.Theorems
