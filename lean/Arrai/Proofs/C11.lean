/-
  C11 — concurrent evaluation over shared values is race-free and gives serial results.

  Property theorems only (invariants and helper lemmas: Arrai/C11/Lemmas.lean).

  Part (a)  protocol correctness of every piece of lazily initialised shared state: each protocol is a
            transition system over interleavings (Arrai/C11/Model.lean), every theorem holds for ALL
            schedules (lists of thread ids) and any number of callers.
  Part (b)  data-race freedom from a locking discipline, about an abstract happens-before trace model;
            the premise per location is the regenerated fact table `lazyState`.

  Not modelled (see lib/props_c11.py): the Go memory model below the documented happens-before edges, the
  scheduler, the internal goroutines of the frozen library and of other dependencies.
-/
import Arrai.C11.Lemmas
import Arrai.C11.Expected
import Arrai.Facts.Generated

namespace Arrai.C11.Theorems
open Arrai.C11

/-! ### Part (a) — protocols -/

/-- sync.Once-guarded caches: under every interleaving f runs at most once and every caller that has returned
got f's value (never the zero value of a half-initialised cache). -/
theorem once_serial {α : Type} (v : α) (sched : List Nat) :
    let s := Once.run v sched Once.init
    s.runs ≤ 1 ∧ ∀ t, s.pc t = .fin → s.res t = some (some v) := by
  have h := Once.inv_run v sched Once.init (Once.inv_init v)
  exact ⟨h.runs_le, h.fin⟩

/-- `Do` returns only after the single run of f has completed and its assignment is in place
(what the happens-before model's `WF.retEnd` / `WF.beginUnique` assume of Once). -/
theorem once_returns_after_f {α : Type} (v : α) (sched : List Nat) :
    let s := Once.run v sched Once.init
    ∀ t, s.pc t = .ret → s.done = true ∧ s.cache = some v ∧ s.runs = 1 := by
  intro s t ht
  have h := Once.inv_run v sched Once.init (Once.inv_init v)
  have hd := h.ret t ht
  exact ⟨hd, (h.done hd).1, (h.done hd).2⟩

/-- the mutex-guarded index cache (computeIndex holds the lock while computing), the embedded-file cache and
stdin's read-once: every caller gets fn(key) and fn runs at most once per key. -/
theorem index_serial {α : Type} (f : Nat → α) (key : Nat → Nat) (sched : List Nat) :
    let s := Keyed.run f key sched Keyed.init
    (∀ t, s.pc t = .fin → s.res t = some (f (key t))) ∧ ∀ k, s.runs k ≤ 1 := by
  have h := Keyed.inv_run f key sched Keyed.init (Keyed.inv_init f key)
  exact ⟨h.fin, h.runs_le⟩

/-- stdin's read-once (`stdOsStdin.read`, the mutex spans io.ReadAll): whatever the interleaving and however the
input is chopped into Reads, every caller gets the WHOLE input and the reader is drained by at most one caller. -/
theorem stdin_serial (chunks : List (List Nat)) (sched : List Nat) :
    let s := Stream.run true sched (Stream.init chunks)
    (∀ t, s.pc t = .fin → s.res t = some chunks.flatten) ∧ s.runs ≤ 1 := by
  have h := Stream.inv_run chunks.flatten sched (Stream.init chunks) (Stream.inv_init chunks)
  exact ⟨h.fin, h.runs_le⟩

/-- the premise "the lock is held during the computation" is necessary for `index_serial` / `stdin_serial`: with the
narrowed region (lock, fetch, unlock, compute, re-lock, store) — in which every field access is still locked, so
there is no data race to detect — two first callers both compute (the computation runs twice), and over a
consuming resource they get different results, neither of them the whole input. -/
theorem index_serial_false_if_lock_released :
    ∃ (chunks : List (List Nat)) (sched : List Nat),
      let s := Stream.run false sched (Stream.init chunks)
      s.pc 0 = .fin ∧ s.pc 1 = .fin ∧ s.runs = 2 ∧
      s.res 0 = some [104, 105] ∧ s.res 1 = some [33] ∧ chunks.flatten = [104, 105, 33] := by
  exact ⟨[[104, 105], [33]], [0, 0, 1, 1, 0, 1, 0, 0, 0, 0, 1, 1, 1, 1], by decide⟩

/-- importCache.getOrAdd (before and after the repair): every caller that returned got either the value of the
successful `add` for its key (which is then the cached one, so all such callers agree), or the error / nil of
the `add` call it made itself; per key at most one `add` call ever returned a value. -/
theorem getOrAdd_serial {ν ε : Type} (repaired : Bool) (add : Nat → Nat → GetOrAdd.Outcome ν ε) (key : Nat → Nat)
    (sched : List Nat) :
    let s := GetOrAdd.run repaired add key sched GetOrAdd.init
    (∀ t, s.pc t = .fin → ∃ r, s.res t = some r ∧
        match r with
        | .val v => s.cache (key t) = .val v ∧ ∃ n, n < s.attempts (key t) ∧ add (key t) n = .val v
        | .err e => ∃ n, s.att t = some n ∧ add (key t) n = .err e
        | .nil => ∃ n, s.att t = some n ∧ add (key t) n = .nil) ∧
    (∀ t u v w, s.pc t = .fin → s.pc u = .fin → key t = key u → s.res t = some (.val v) → s.res u = some (.val w) →
        v = w) ∧
    ∀ k, s.wins k ≤ 1 := by
  intro s
  have h : GetOrAdd.Inv add key s :=
    GetOrAdd.inv_run repaired add key sched GetOrAdd.init (GetOrAdd.inv_init add key)
  refine ⟨?_, ?_, ?_⟩
  · intro t ht
    obtain ⟨r, hr, hok⟩ := h.fin t ht
    refine ⟨r, hr, ?_⟩
    cases r with
    | val v => exact ⟨hok, (h.hitv _ v hok).2⟩
    | err e => exact hok
    | nil => exact hok
  · intro t u v w ht hu hk hrt hru
    obtain ⟨r, hr, hok⟩ := h.fin t ht
    obtain ⟨r', hr', hok'⟩ := h.fin u hu
    have e1 : r = .val v := Option.some.inj (hr.symm.trans hrt)
    have e2 : r' = .val w := Option.some.inj (hr'.symm.trans hru)
    subst e1; subst e2
    have a : s.cache (key t) = .val v := hok
    have b : s.cache (key u) = .val w := hok'
    rw [hk] at a
    rw [a] at b
    exact GetOrAdd.Entry.val.inj b
  · intro k
    cases hc : s.cache k with
    | absent => have := h.absent k hc; omega
    | val v => have := (h.hitv k v hc).1; omega
    | inflight t =>
      have hk := h.ownk k t hc
      have had : GetOrAdd.adder (s.pc t) = true := (h.own t).2 (by rw [hk]; exact hc)
      rw [← hk]
      cases hp : s.pc t <;> simp [hp, GetOrAdd.adder] at had
      · have := h.adding t hp; omega
      · have := (h.errs t (Or.inl hp)).1; omega
      · have := (h.errs t (Or.inr hp)).1; omega
      · obtain ⟨n, _, _, _, _, hw⟩ := h.oks t (Or.inl hp); rw [hw]; split <;> omega
      · obtain ⟨n, _, _, _, _, hw⟩ := h.oks t (Or.inr hp); rw [hw]; split <;> omega

/-- importCache.getOrAdd as repaired: no caller waits forever.  For N callers and every schedule over them:
(1) at most N·(4N+5) scheduled steps can ever be effective (each one strictly decreases a measure), and
(2) whenever none of the N callers can take a step, all of them have returned.
Hence under any scheduler that keeps running a runnable goroutine every caller returns; `add` is a terminating
step of the model (a hypothesis: an `add` that itself blocks is outside this theorem). -/
theorem getOrAdd_live {ν ε : Type} (add : Nat → Nat → GetOrAdd.Outcome ν ε) (key : Nat → Nat) (N : Nat)
    (sched : List Nat) (hs : ∀ x ∈ sched, x < N) :
    let s := GetOrAdd.run true add key sched GetOrAdd.init
    GetOrAdd.effective true add key sched GetOrAdd.init ≤ N * (4 * N + 5) ∧
    ((∀ u, u < N → GetOrAdd.enabled s u = false) → ∀ t, t < N → s.pc t = .fin) := by
  intro s
  have hi := GetOrAdd.inv_run true add key sched GetOrAdd.init (GetOrAdd.inv_init add key)
  have hl := GetOrAdd.live_run add key N sched hs GetOrAdd.init (GetOrAdd.inv_init add key) (GetOrAdd.live_init key N)
  constructor
  · have := GetOrAdd.effective_bound true add key N sched hs GetOrAdd.init
    rw [GetOrAdd.measure_init] at this
    omega
  · intro hdis t ht
    apply Classical.byContradiction
    intro hnf
    obtain ⟨u, hu, he⟩ := GetOrAdd.no_deadlock hi hl t ht hnf
    rw [hdis u hu] at he
    cases he

/-- the same statement is false of the code before the repair (no Broadcast in the clean-up after a failed
add): two callers of one key, the first one's add fails while the second waits — the second one sleeps
forever, whatever the two do afterwards. -/
theorem getOrAdd_live_false_before_repair :
    ∃ (add : Nat → Nat → GetOrAdd.Outcome Nat Nat) (key : Nat → Nat) (sched : List Nat),
      (∀ x ∈ sched, x < 2) ∧
      let s := GetOrAdd.run false add key sched GetOrAdd.init
      s.pc 0 = .fin ∧ s.pc 1 = .asleep ∧ (∀ u, u < 2 → GetOrAdd.enabled s u = false) ∧
      ∀ sched', (∀ x ∈ sched', x < 2) → (GetOrAdd.run false add key sched' s).pc 1 = .asleep := by
  refine ⟨fun _ _ => .err 7, fun _ => 0, [0, 0, 1, 1, 0, 0, 0], by decide, ?_⟩
  intro s
  have h0 : s.pc 0 = .fin := by decide
  have h1 : s.pc 1 = .asleep := by decide
  refine ⟨h0, h1, ?_, ?_⟩
  · intro u hu
    have : u = 0 ∨ u = 1 := by omega
    rcases this with rfl | rfl
    · simp [GetOrAdd.enabled, h0]
    · simp [GetOrAdd.enabled, h1]
  · intro sched' hs'
    have stay : ∀ (l : List Nat), (∀ x ∈ l, x < 2) →
        GetOrAdd.run false (fun _ _ => GetOrAdd.Outcome.err 7) (fun _ => 0) l s = s := by
      intro l
      induction l with
      | nil => intro _; rfl
      | cons x r ih =>
        intro hl
        have hx : x < 2 := hl x (by simp)
        have : x = 0 ∨ x = 1 := by omega
        simp only [GetOrAdd.run, List.foldl_cons]
        rcases this with rfl | rfl
        · rw [GetOrAdd.step_fin _ _ _ _ _ h0]; exact ih (fun y hy => hl y (by simp [hy]))
        · rw [GetOrAdd.step_asleep _ _ _ _ _ h1]; exact ih (fun y hy => hl y (by simp [hy]))
    rw [stay sched' hs']
    exact h1

/-! the cross-wait scenario: caller 0 adds key 0 and inside `add` asks for key 1 (nested call 2); caller 1 adds
key 1 and inside `add` asks for key 0 (nested call 3) -/
def xChild : Nat → Option Nat := fun t => if t = 0 then some 2 else if t = 1 then some 3 else none
def xParent : Nat → Option Nat := fun t => if t = 2 then some 0 else if t = 3 then some 1 else none
def xKey : Nat → Nat := fun t => if t = 0 then 0 else if t = 1 then 1 else if t = 2 then 1 else 0
def xAdd : Nat → Nat → GetOrAdd.Outcome Nat Nat := fun _ n => .val n
def xState : GetOrAdd.St Nat Nat := GetOrAdd.runN xChild xParent xAdd xKey [0, 0, 1, 1, 2, 2, 3, 3] GetOrAdd.init

/-- `getOrAdd_live` needs its hypothesis that `add` terminates: when `add` itself calls getOrAdd (a script importing
other scripts) two goroutines can wait for each other.  Neither call chain repeats a key, so the import-cycle check
of one chain does not see it.  Known finding KF-import-cross-wait. -/
theorem getOrAdd_live_full_false_nested_add :
    (∀ t, t < 4 → xState.pc t ≠ .fin) ∧ (∀ t, t < 4 → GetOrAdd.enabledN xChild xParent xState t = false) ∧
    ∀ sched', (∀ x ∈ sched', x < 4) → ∀ t, t < 4 →
      (GetOrAdd.runN xChild xParent xAdd xKey sched' xState).pc t = xState.pc t := by
  have p0 : xState.pc 0 = .adding := by decide
  have p1 : xState.pc 1 = .adding := by decide
  have p2 : xState.pc 2 = .asleep := by decide
  have p3 : xState.pc 3 = .asleep := by decide
  have cases4 : ∀ t, t < 4 → t = 0 ∨ t = 1 ∨ t = 2 ∨ t = 3 := by intro t ht; omega
  have dis : ∀ t, t < 4 → GetOrAdd.enabledN xChild xParent xState t = false := by
    intro t ht
    rcases cases4 t ht with rfl | rfl | rfl | rfl
    · simp [GetOrAdd.enabledN, GetOrAdd.enabled, p0, p2, xChild]
    · simp [GetOrAdd.enabledN, GetOrAdd.enabled, p1, p3, xChild]
    · simp [GetOrAdd.enabledN, GetOrAdd.enabled, p2]
    · simp [GetOrAdd.enabledN, GetOrAdd.enabled, p3]
  refine ⟨?_, dis, ?_⟩
  · intro t ht
    rcases cases4 t ht with rfl | rfl | rfl | rfl
    · rw [p0]; simp
    · rw [p1]; simp
    · rw [p2]; simp
    · rw [p3]; simp
  · intro sched' hs'
    have stay : ∀ (l : List Nat), (∀ x ∈ l, x < 4) → GetOrAdd.runN xChild xParent xAdd xKey l xState = xState := by
      intro l
      induction l with
      | nil => intro _; rfl
      | cons x r ih =>
        intro hl
        have hx : x < 4 := hl x (by simp)
        simp only [GetOrAdd.runN, List.foldl_cons]
        have : GetOrAdd.stepN xChild xParent xAdd xKey xState x = xState := by
          unfold GetOrAdd.stepN
          rw [dis x hx]
          simp
        rw [this]
        exact ih (fun y hy => hl y (by simp [hy]))
    intro t _
    rw [stay sched' hs']

/-- deprecate's `encountered`: `true` is returned only for a source context that is recorded; when a caller has
returned its context is recorded; and for every recorded context some caller got `false` (so the
deprecation is reported at least once). -/
theorem seen_serial (key : Nat → Nat) (sched : List Nat) :
    let s := Seen.run key sched Seen.init
    (∀ t, s.res t = some true → s.m (key t) = true) ∧
    (∀ t, s.pc t = .fin → s.m (key t) = true ∧ (s.res t = some false ∨ s.res t = some true)) ∧
    ∀ k, s.m k = true → ∃ t, key t = k ∧ s.res t = some false := by
  have h := Seen.inv_run key sched Seen.init (Seen.inv_init key)
  exact ⟨h.trueOK, h.fin, h.witness⟩

/-- … but not exactly once: the read lock is dropped before the write lock is taken, so two concurrent callers
with the same context can both get `false` (the warning is then printed twice — harmless, recorded here so
that nobody mistakes `encountered` for a test-and-set). -/
theorem seen_not_test_and_set :
    ∃ sched, let s := Seen.run (fun _ => 0) sched Seen.init
      s.res 0 = some false ∧ s.res 1 = some false := by
  exact ⟨[0, 0, 1, 1, 0, 1, 0, 0, 1, 1], by decide⟩

/-! ### Part (b) — data-race freedom from a locking discipline -/

/-- If every access to location `l` follows one of the disciplines — written only inside `once_k.Do`'s function
and read inside it or after a completed `once_k.Do`; or written holding mutex `m` exclusively and read holding
`m` (shared or exclusively); or never written — where the creating goroutine may additionally access `l`
freely before a publication event that happens-before every other access, then no trace of the model has a
data race on `l`. -/
theorem discipline_sound (tr : HB.Trace) (wf : HB.WF tr) (l : Nat) (d : HB.Disc) (pub : Option (Nat × Nat))
    (h : HB.Respects tr l d pub) : ¬ HB.Race tr l := by
  rintro ⟨i, j, t, u, a, b, hij, hi, hj, htu, hla, hlb, hw, hnhb⟩
  obtain ⟨hpub, hacc⟩ := h
  apply hnhb
  rcases hacc i t a hi hla with ⟨c, p, hp, htc, hip⟩ | ⟨hposti, hoki⟩
  · rcases hacc j u b hj hlb with ⟨c', p', hp', huc, _⟩ | ⟨hpostj, _⟩
    · -- both before publication: same goroutine
      rw [hp] at hp'; injection hp' with h'; injection h' with h1 _
      exact absurd (htc.trans (h1.trans huc.symm)) htu
    · -- i before publication by the creator, j after it
      obtain ⟨e, hpe⟩ := hpub c p hp
      subst htc
      exact .trans (.po hip hi hpe) (hpostj t p hp)
  · rcases hacc j u b hj hlb with ⟨c', p', hp', _, hjp⟩ | ⟨_, hokj⟩
    · -- i after publication, j before it: impossible, publication precedes i
      have := HB.hb_lt (hposti c' p' hp')
      omega
    · cases d with
      | once k => exact HB.once_core wf hij htu hi hj hla hoki hokj hw
      | mutex m =>
        rcases hoki with hxi | ⟨hri, hsi⟩
        · rcases hokj with hxj | ⟨_, hsj⟩
          · exact HB.mutex_core wf hij htu hi hj hla hxi hxj (Or.inl rfl)
          · exact HB.mutex_core wf hij htu hi hj hla hxi hsj (Or.inl rfl)
        · rcases hokj with hxj | ⟨hrj, _⟩
          · exact HB.mutex_core wf hij htu hi hj hla hsi hxj (Or.inr rfl)
          · rcases hw with h | h
            · rw [hri] at h; cases h
            · rw [hrj] at h; cases h
      | readonly =>
        rcases hw with h | h
        · rw [hoki] at h; cases h
        · rw [hokj] at h; cases h

/-! The hypotheses of `discipline_sound` are satisfiable by a non-trivial trace: two goroutines that write and
read location 7 under mutex 0 (the shape of `firstError.set` / `firstError.get` after the repair). -/
example : HB.WF HB.mutexTrace ∧ HB.Respects HB.mutexTrace 7 (.mutex 0) none ∧ ¬ HB.Race HB.mutexTrace 7 := by
  have hr : HB.Respects HB.mutexTrace 7 (.mutex 0) none := by
    refine ⟨(by intro c p h; cases h), ?_⟩
    intro i t e h hl
    refine Or.inr ⟨(by intro c p h; cases h), Or.inl ?_⟩
    rcases i with _ | _ | _ | _ | _ | _ | i <;> simp [HB.mutexTrace] at h
    all_goals (obtain ⟨h1, h2⟩ := h; subst h1; subst h2)
    all_goals (first | (simp [HB.onLoc] at hl; done) | skip)
    · exact ⟨0, by omega, by simp [HB.mutexTrace], fun b hb1 hb2 => by omega⟩
    · exact ⟨3, by omega, by simp [HB.mutexTrace], fun b hb1 hb2 => by omega⟩
  exact ⟨HB.mutexTrace_wf, hr, discipline_sound HB.mutexTrace HB.mutexTrace_wf 7 (.mutex 0) none hr⟩

/-- the trace of the captured `err` of GenericSet.Where / positionalRelation.Where before the repair: the caller
starts two workers (frozen's fan-out); one tests `err != nil` while the other assigns `err = err2`; the caller
collects both through a channel and reads `err` -/
def whereTrace : HB.Trace :=
  [(0, .go 1), (0, .go 2), (1, .start), (2, .start), (1, .rd 0), (2, .wr 0),
   (1, .send 0 0), (2, .send 0 1), (0, .recv 0 0), (0, .recv 0 1), (0, .rd 0)]

/-- the events that happen-before each event of `whereTrace` -/
def wherePred : Nat → List Nat
  | 1 => [0] | 2 => [0] | 3 => [0, 1] | 4 => [0, 2] | 5 => [0, 1, 3] | 6 => [0, 2, 4] | 7 => [0, 1, 3, 5]
  | 8 => [0, 1, 2, 4, 6] | 9 => [0, 1, 2, 3, 4, 5, 6, 7, 8] | 10 => [0, 1, 2, 3, 4, 5, 6, 7, 8, 9]
  | _ => []

/-- before the repair the two accesses of the workers are not ordered: a data race on `err` (the caller's final
read, by contrast, is ordered after both through the channel) -/
theorem where_err_race_before_repair : HB.Race whereTrace 0 := by
  refine ⟨4, 5, 1, 2, .rd 0, .wr 0, by decide, by decide, by decide, by decide, by decide, by decide,
    Or.inr (by decide), ?_⟩
  intro h
  have closed : ∀ i j, HB.edgeB whereTrace i j = true →
      i ∈ wherePred j ∧ ∀ x, x ∈ wherePred i → x ∈ wherePred j := by
    intro i j he
    have hl := HB.edgeB_lt he
    have hb : (List.range 11).all (fun i => (List.range 11).all (fun j =>
        !HB.edgeB whereTrace i j ||
          ((wherePred j).contains i && (wherePred i).all (fun x => (wherePred j).contains x)))) = true := by decide
    have hi : i ∈ List.range 11 := List.mem_range.2 hl.1
    have hj : j ∈ List.range 11 := List.mem_range.2 hl.2
    have := List.all_eq_true.1 (List.all_eq_true.1 hb i hi) j hj
    simp [he] at this
    exact ⟨this.1, fun x hx => this.2 x hx⟩
  have := (HB.hb_pred wherePred closed h).1
  revert this
  decide

/-! ### the premise per location: the regenerated fact table -/

/-- the table extracted from the current sources is the one the disciplines below were read off -/
theorem lazyState_regenerated : Arrai.Facts.Generated.lazyState = Expected.lazyState := by decide

/-- every location of the table follows one of the disciplines: no package-level variable or field of a shared
struct is assigned after construction outside a `Once.Do` function / a `Lock…Unlock` region (or during package
initialisation / by the documented host set-up function), every read of it is guarded accordingly, and no
variable captured by a callback handed to frozen's Where/Map/Reduce/… (or started with `go`) is assigned in
that callback without a mutex.  A new unsynchronised captured assignment breaks this obligation. -/
theorem lazyState_disciplined : ∀ r ∈ Expected.lazyState, (Expected.classify r).isSome = true := by decide

/-- the two rows the table had before the repair (captured `err` assigned in the callbacks of
GenericSet.Where and positionalRelation.Where) are rejected -/
theorem lazyState_rejects_unrepaired :
    Expected.classify ("captured", "rel.GenericSet.Where/Where:err", [[]], [], ["GenericSet.Where"]) = none ∧
    Expected.classify ("captured", "rel.positionalRelation.Where/Where:err", [[]], [],
      ["positionalRelation.Where"]) = none := by decide

/-- the compute-and-store table extracted from the current sources is the expected one -/
theorem lazyCompute_regenerated : Arrai.Facts.Generated.lazyCompute = Expected.lazyCompute := by decide

/-- in every mutex-guarded compute-and-store function the Lock…Unlock region spans every call the stored value is
computed from (io.ReadAll in stdOsStdin.read and mustReadEmbeddedFile, fn() in computeIndex) — the premise of
`index_serial` / `stdin_serial` — except in importCache.getOrAdd, whose in-flight-marker protocol is proved on
its own.  Narrowing such a region changes the table and breaks `lazyCompute_regenerated`. -/
theorem lazyCompute_lock_spans_computation : ∀ r ∈ Expected.lazyCompute, Expected.computeOK r = true := by decide

/-- the row a narrowed stdin region would produce is rejected -/
theorem lazyCompute_rejects_narrowed :
    Expected.computeOK ("syntax.stdOsStdin.bytes", "stdOsStdin.read", "io.ReadAll", false) = false := by decide

/-- the discipline of the model that a classified row stands for (`ids` names its Once / mutex) -/
def toDisc (id : Nat) : Expected.Kind → HB.Disc
  | .once _ => .once id
  | .mutex _ => .mutex id
  | .init => .readonly
  | .setup => .readonly

/-- every location of the table is race-free in every trace that respects the discipline it was classified
under (init / setup rows: written only by the initialising goroutine before publication, read-only after) -/
theorem lazyState_race_free (r : Expected.Row) (hr : r ∈ Expected.lazyState) :
    ∃ k, Expected.classify r = some k ∧
      ∀ (tr : HB.Trace) (l id : Nat) (pub : Option (Nat × Nat)), HB.WF tr →
        HB.Respects tr l (toDisc id k) pub → ¬ HB.Race tr l := by
  have h := lazyState_disciplined r hr
  cases hk : Expected.classify r with
  | none => rw [hk] at h; cases h
  | some k => exact ⟨k, rfl, fun tr l id pub wf hres => discipline_sound tr wf l _ pub hres⟩

end Arrai.C11.Theorems
