/-
  C05: the set builder (`SetBuilder.Finish` with asString / asBytes / asArray / NewDict / relations)
  holds exactly the members it was given — when they are representable.
-/
import Arrai.C05.Lemmas

namespace Arrai.C05
open Arrai KSeq

theorem members_ofBuckets (bs : List Bucket) : (Impl.ofBuckets bs).members = bucketsMembers bs := by
  cases bs with
  | nil => rfl
  | cons b r =>
    cases r with
    | nil => simp [Impl.ofBuckets, Coll.members, bucketsMembers]
    | cons b' r' => rfl

theorem bucketsMembers_append (a b : List Bucket) :
    bucketsMembers (a ++ b) = bucketsMembers a ++ bucketsMembers b := by
  induction a with
  | nil => rfl
  | cons x r ih => simp [bucketsMembers, ih]

theorem mem_asArray (ts : List (Int × V)) (hf : Functional ts) (x : V) :
    x ∈ (Impl.asArray ts).members ↔ ∃ t ∈ ts, x = V.pair "@item" (.num t.1) t.2 := by
  simp only [Impl.asArray, Bucket.members, mem_seqMembers, mem_kden_fill ts hf, Prod.exists]

theorem strSlots_fill (ts : List (Int × Int)) (hf : Functional ts) (hpos : ∀ t ∈ ts, 0 ≤ t.2) :
    strSlots ((fill ts).2.map (fun o => o.getD (-1))) = (fill ts).2.map (Option.map V.num) := by
  simp only [strSlots, List.map_map]
  apply List.map_congr_left
  intro o ho
  cases o with
  | none => simp
  | some c =>
    obtain ⟨j, _, _, hj⟩ := mem_slotsFrom ho
    have := hpos (j, c) ((slotAt_eq_some ts hf j c).1 hj.symm)
    have h' : ¬ c < 0 := by simpa using this
    simp [h']

theorem mem_asString (ts : List (Int × Int)) (hf : Functional ts) (hpos : ∀ t ∈ ts, 0 ≤ t.2) (x : V) :
    x ∈ (Impl.asString ts).members ↔ ∃ t ∈ ts, x = V.pair "@char" (.num t.1) (.num t.2) := by
  simp only [Impl.asString, Bucket.members, mem_seqMembers, strSlots_fill ts hf hpos, kden_map,
    List.mem_map, Prod.exists, Prod.mk.injEq]
  constructor
  · rintro ⟨i, v, ⟨a, b, hab, rfl, rfl⟩, rfl⟩
    exact ⟨a, b, (mem_kden_fill ts hf a b).1 hab, rfl⟩
  · rintro ⟨a, b, hab, rfl⟩
    exact ⟨a, .num b, ⟨a, b, (mem_kden_fill ts hf a b).2 hab, rfl, rfl⟩, rfl⟩

theorem denseB_mem (ts : List (Int × Int)) (hne : ts ≠ []) (hd : Spec.denseB ts = true) (j : Int)
    (h1 : minIdx ts ≤ j) (h2 : j ≤ maxIdx ts) : ∃ b, (j, b) ∈ ts := by
  simp only [Spec.denseB, Bool.or_eq_true, List.isEmpty_iff, hne, false_or, List.all_eq_true,
    List.mem_range, List.any_eq_true, beq_iff_eq, Prod.exists] at hd
  obtain ⟨a, b, hab, e⟩ := hd (j - minIdx ts).toNat (by omega)
  simp only [Int.ofNat_eq_natCast] at e
  have : a = j := by omega
  subst this
  exact ⟨b, hab⟩

theorem byteSlots_fill (ts : List (Int × Int)) (hf : Functional ts) (hne : ts ≠ [])
    (hd : Spec.denseB ts = true) (hr : ∀ t ∈ ts, 0 ≤ t.2 ∧ t.2 < 256) :
    byteSlots ((fill ts).2.map (fun o => (o.getD 0).toNat % 256)) = (fill ts).2.map (Option.map V.num) := by
  simp only [byteSlots, List.map_map]
  apply List.map_congr_left
  intro o ho
  obtain ⟨j, hj1, hj2, hj⟩ := mem_slotsFrom ho
  cases o with
  | none =>
    exfalso
    obtain ⟨b, hb⟩ := denseB_mem ts hne hd j hj1 (by omega)
    rw [(slotAt_eq_some ts hf j b).2 hb] at hj
    simp at hj
  | some c =>
    have := hr (j, c) ((slotAt_eq_some ts hf j c).1 hj.symm)
    simp only [Function.comp_apply, Option.getD_some, Option.map_some, Option.some.injEq, V.num.injEq,
      Int.ofNat_eq_natCast]
    omega

theorem mem_asBytes (ts : List (Int × Int)) (hf : Functional ts) (hne : ts ≠ [])
    (hd : Spec.denseB ts = true) (hr : ∀ t ∈ ts, 0 ≤ t.2 ∧ t.2 < 256) (x : V) :
    x ∈ (Impl.asBytes ts).members ↔ ∃ t ∈ ts, x = V.pair "@byte" (.num t.1) (.num t.2) := by
  simp only [Impl.asBytes, Bucket.members, mem_seqMembers, byteSlots_fill ts hf hne hd hr, kden_map,
    List.mem_map, Prod.exists, Prod.mk.injEq]
  constructor
  · rintro ⟨i, v, ⟨a, b, hab, rfl, rfl⟩, rfl⟩
    exact ⟨a, b, (mem_kden_fill ts hf a b).1 hab, rfl⟩
  · rintro ⟨a, b, hab, rfl⟩
    exact ⟨a, .num b, ⟨a, b, (mem_kden_fill ts hf a b).2 hab, rfl, rfl⟩, rfl⟩

theorem mem_relBuckets (ps : List (String × V × V)) (x : V) :
    x ∈ bucketsMembers (Impl.relBuckets ps) ↔ ∃ p ∈ ps, x = V.pair p.1 p.2.1 p.2.2 := by
  simp only [mem_bucketsMembers, Impl.relBuckets, List.mem_map, Impl.relNames, mem_dedup]
  constructor
  · rintro ⟨b, ⟨n, _, rfl⟩, hx⟩
    simp only [Bucket.members, List.mem_map, mem_dedup, List.mem_filter, decide_eq_true_eq, relRow] at hx
    obtain ⟨r, ⟨p, ⟨hp, hn⟩, rfl⟩, rfl⟩ := hx
    refine ⟨p, hp, ?_⟩
    by_cases hlt : "@" < n <;> simp [hn, hlt]
  · rintro ⟨p, hp, rfl⟩
    refine ⟨_, ⟨p.1, ⟨p, hp, rfl⟩, rfl⟩, ?_⟩
    simp only [Bucket.members, List.mem_map, mem_dedup, List.mem_filter, decide_eq_true_eq, relRow]
    refine ⟨_, ⟨p, ⟨hp, rfl⟩, rfl⟩, ?_⟩
    by_cases hlt : "@" < p.1 <;> simp [hlt]

theorem mem_ite_bucket {α : Type} (l : List α) (b : Bucket) (x : V) :
    x ∈ bucketsMembers (if l.isEmpty then [] else [b]) ↔ l ≠ [] ∧ x ∈ b.members := by
  cases l with
  | nil => simp [bucketsMembers]
  | cons a r => simp [bucketsMembers]

theorem mem_others_bucket (os : List V) (x : V) :
    x ∈ bucketsMembers (if os.isEmpty then []
      else if dedup os = [.tup []] then [Bucket.tt] else [.other (dedup os)]) ↔ x ∈ os := by
  cases os with
  | nil => simp [bucketsMembers]
  | cons a r =>
    simp only [List.isEmpty_cons, Bool.false_eq_true, if_false]
    split
    · rename_i h
      simp only [bucketsMembers, Bucket.members, List.append_nil]
      rw [← h, mem_dedup]
    · simp only [bucketsMembers, Bucket.members, List.append_nil, mem_dedup]

/-- the set builder holds exactly the members it was given, when they are representable -/
theorem mem_buckets (xs : List V) (hrep : Spec.representableList xs = true) (x : V) :
    x ∈ bucketsMembers (Impl.buckets xs) ↔ x ∈ xs := by
  simp only [Spec.representableList, Spec.superimposedList, Spec.bytesGapList, Spec.inRangeList,
    Bool.and_eq_true, Bool.not_eq_true', Bool.not_eq_false', functionalB_iff, List.all_eq_true,
    decide_eq_true_eq] at hrep
  obtain ⟨⟨⟨⟨hfc, hfb⟩, hfi⟩, hdense⟩, hpos, hrange⟩ := hrep
  simp only [Impl.buckets, bucketsMembers_append, List.mem_append, mem_ite_bucket, mem_others_bucket,
    mem_relBuckets, mem_othersOf]
  constructor
  · rintro (⟨_, h⟩ | ⟨hne, h⟩ | ⟨_, h⟩ | ⟨_, h⟩ | h | h)
    · obtain ⟨t, ht, rfl⟩ := (mem_asString _ hfc hpos x).1 h
      obtain ⟨y, hy, hc⟩ := (mem_charsOf xs t).1 ht
      rw [← classify_char hc]; exact hy
    · obtain ⟨t, ht, rfl⟩ := (mem_asBytes _ hfb hne hdense hrange x).1 h
      obtain ⟨y, hy, hc⟩ := (mem_bytesOf xs t).1 ht
      rw [← classify_byte hc]; exact hy
    · obtain ⟨t, ht, rfl⟩ := (mem_asArray _ hfi x).1 h
      obtain ⟨y, hy, hc⟩ := (mem_itemsOf xs t).1 ht
      rw [← classify_item hc]; exact hy
    · simp only [Bucket.members, mem_dictMembers_newDict, List.mem_map] at h
      obtain ⟨t, ht, rfl⟩ := h
      obtain ⟨y, hy, hc⟩ := (mem_entriesOf xs t).1 ht
      rw [← classify_entry hc]; exact hy
    · obtain ⟨p, hp, rfl⟩ := h
      obtain ⟨y, hy, hc⟩ := (mem_pairsOf xs p).1 hp
      rw [← (classify_pair hc).1]; exact hy
    · exact h.1
  · intro hx
    rcases classify_cases x with ⟨i, c, h1, h2⟩ | ⟨i, c, h1, h2⟩ | ⟨i, v, h1, h2⟩ | ⟨k, v, h1, h2⟩ |
      ⟨k, n, v, h1, h2, _⟩ | ⟨h1, _⟩
    · have hm : (i, c) ∈ charsOf xs := (mem_charsOf xs (i, c)).2 ⟨x, hx, h1⟩
      exact Or.inl ⟨List.ne_nil_of_mem hm, (mem_asString _ hfc hpos x).2 ⟨(i, c), hm, h2⟩⟩
    · have hm : (i, c) ∈ bytesOf xs := (mem_bytesOf xs (i, c)).2 ⟨x, hx, h1⟩
      have hne := List.ne_nil_of_mem hm
      exact Or.inr (Or.inl ⟨hne, (mem_asBytes _ hfb hne hdense hrange x).2 ⟨(i, c), hm, h2⟩⟩)
    · have hm : (i, v) ∈ itemsOf xs := (mem_itemsOf xs (i, v)).2 ⟨x, hx, h1⟩
      exact Or.inr (Or.inr (Or.inl ⟨List.ne_nil_of_mem hm, (mem_asArray _ hfi x).2 ⟨(i, v), hm, h2⟩⟩))
    · have hm : (k, v) ∈ entriesOf xs := (mem_entriesOf xs (k, v)).2 ⟨x, hx, h1⟩
      refine Or.inr (Or.inr (Or.inr (Or.inl ⟨List.ne_nil_of_mem hm, ?_⟩)))
      simp only [Bucket.members, mem_dictMembers_newDict, List.mem_map]
      exact ⟨(k, v), hm, h2.symm⟩
    · have hm : (n, k, v) ∈ pairsOf xs := (mem_pairsOf xs (n, k, v)).2 ⟨x, hx, h1⟩
      exact Or.inr (Or.inr (Or.inr (Or.inr (Or.inl ⟨(n, k, v), hm, h2⟩))))
    · exact Or.inr (Or.inr (Or.inr (Or.inr (Or.inr ⟨hx, h1⟩))))

theorem mem_members_build (xs : List V) (hrep : Spec.representableList xs = true) (x : V) :
    x ∈ (Impl.build xs).members ↔ x ∈ xs := by
  rw [Impl.build, members_ofBuckets, mem_buckets xs hrep]

theorem den_build (xs : List V) (hrep : Spec.representableList xs = true) :
    (Impl.build xs).den = V.mkSet xs := by
  simp only [Coll.den, V.mkSet, V.set.injEq]
  exact mk_congr (mem_members_build xs hrep)

/-! ## representability depends on the members only -/

/-- every index between two present indices is present -/
def DenseP {α : Type} (ts : List (Int × α)) : Prop :=
  ∀ i j k v w, (i, v) ∈ ts → (k, w) ∈ ts → i ≤ j → j ≤ k → ∃ b, (j, b) ∈ ts

theorem minIdx_mem {α : Type} (ts : List (Int × α)) (hne : ts ≠ []) : ∃ v, (minIdx ts, v) ∈ ts := by
  induction ts with
  | nil => exact absurd rfl hne
  | cons t r ih =>
    cases r with
    | nil => exact ⟨t.2, by simp [minIdx]⟩
    | cons u r' =>
      obtain ⟨v, hv⟩ := ih (by simp)
      simp only [minIdx]
      by_cases h : t.1 ≤ minIdx (u :: r')
      · rw [Int.min_eq_left h]; exact ⟨t.2, by simp⟩
      · rw [Int.min_eq_right (by omega)]; exact ⟨v, List.mem_cons_of_mem _ hv⟩

theorem maxIdx_mem {α : Type} (ts : List (Int × α)) (hne : ts ≠ []) : ∃ v, (maxIdx ts, v) ∈ ts := by
  induction ts with
  | nil => exact absurd rfl hne
  | cons t r ih =>
    cases r with
    | nil => exact ⟨t.2, by simp [maxIdx]⟩
    | cons u r' =>
      obtain ⟨v, hv⟩ := ih (by simp)
      simp only [maxIdx]
      by_cases h : maxIdx (u :: r') ≤ t.1
      · rw [Int.max_eq_left h]; exact ⟨t.2, by simp⟩
      · rw [Int.max_eq_right (by omega)]; exact ⟨v, List.mem_cons_of_mem _ hv⟩

theorem denseB_iff (ts : List (Int × Int)) : Spec.denseB ts = true ↔ DenseP ts := by
  by_cases hne : ts = []
  · subst hne; simp [Spec.denseB, DenseP]
  · constructor
    · intro hd i j k v w hi hk h1 h2
      exact denseB_mem ts hne hd j (by have := minIdx_le hi; omega) (by have := le_maxIdx hk; omega)
    · intro hd
      simp only [Spec.denseB, Bool.or_eq_true, List.isEmpty_iff, hne, false_or, List.all_eq_true,
        List.mem_range, List.any_eq_true, beq_iff_eq, Prod.exists]
      intro n hn
      obtain ⟨v, hv⟩ := minIdx_mem ts hne
      obtain ⟨w, hw⟩ := maxIdx_mem ts hne
      obtain ⟨b, hb⟩ := hd (minIdx ts) (minIdx ts + n) (maxIdx ts) v w hv hw (by omega) (by omega)
      exact ⟨_, b, hb, by simp⟩

/-- the membership-only form of `representableList` -/
def RepresentableP (xs : List V) : Prop :=
  Functional (charsOf xs) ∧ Functional (bytesOf xs) ∧ Functional (itemsOf xs) ∧ DenseP (bytesOf xs) ∧
    (∀ t ∈ charsOf xs, 0 ≤ t.2) ∧ (∀ t ∈ bytesOf xs, 0 ≤ t.2 ∧ t.2 < 256)

theorem representableList_iff (xs : List V) : Spec.representableList xs = true ↔ RepresentableP xs := by
  simp only [Spec.representableList, Spec.superimposedList, Spec.bytesGapList, Spec.inRangeList,
    Bool.and_eq_true, Bool.not_eq_true', Bool.not_eq_false', functionalB_iff, List.all_eq_true,
    decide_eq_true_eq, denseB_iff, RepresentableP]
  constructor
  · rintro ⟨⟨⟨⟨a, b⟩, c⟩, d⟩, e, f⟩; exact ⟨a, b, c, d, e, f⟩
  · rintro ⟨a, b, c, d, e, f⟩; exact ⟨⟨⟨⟨a, b⟩, c⟩, d⟩, e, f⟩

theorem representableP_congr {l₁ l₂ : List V} (h : ∀ x, x ∈ l₁ ↔ x ∈ l₂) (hr : RepresentableP l₁) :
    RepresentableP l₂ := by
  have hc : ∀ t, t ∈ charsOf l₂ ↔ t ∈ charsOf l₁ := fun t => by
    rw [mem_charsOf, mem_charsOf]
    exact ⟨fun ⟨x, hx, e⟩ => ⟨x, (h x).2 hx, e⟩, fun ⟨x, hx, e⟩ => ⟨x, (h x).1 hx, e⟩⟩
  have hb : ∀ t, t ∈ bytesOf l₂ ↔ t ∈ bytesOf l₁ := fun t => by
    rw [mem_bytesOf, mem_bytesOf]
    exact ⟨fun ⟨x, hx, e⟩ => ⟨x, (h x).2 hx, e⟩, fun ⟨x, hx, e⟩ => ⟨x, (h x).1 hx, e⟩⟩
  have hi : ∀ t, t ∈ itemsOf l₂ ↔ t ∈ itemsOf l₁ := fun t => by
    rw [mem_itemsOf, mem_itemsOf]
    exact ⟨fun ⟨x, hx, e⟩ => ⟨x, (h x).2 hx, e⟩, fun ⟨x, hx, e⟩ => ⟨x, (h x).1 hx, e⟩⟩
  obtain ⟨f1, f2, f3, d, p, r⟩ := hr
  refine ⟨fun i v w a b => f1 i v w ((hc _).1 a) ((hc _).1 b), fun i v w a b => f2 i v w ((hb _).1 a) ((hb _).1 b),
    fun i v w a b => f3 i v w ((hi _).1 a) ((hi _).1 b), ?_, fun t ht => p t ((hc t).1 ht),
    fun t ht => r t ((hb t).1 ht)⟩
  intro i j k v w hv hw h1 h2
  obtain ⟨b, hb'⟩ := d i j k v w ((hb _).1 hv) ((hb _).1 hw) h1 h2
  exact ⟨b, (hb _).2 hb'⟩

theorem representableList_congr {l₁ l₂ : List V} (h : ∀ x, x ∈ l₁ ↔ x ∈ l₂)
    (hr : Spec.representableList l₁ = true) : Spec.representableList l₂ = true :=
  (representableList_iff l₂).2 (representableP_congr h ((representableList_iff l₁).1 hr))

/-! ## `++` -/

theorem shiftAll_eq (n : Int) (l : List V) :
    Impl.shiftAll n l = (match Spec.shiftMembers n l with | some ys => .ok ys | none => .error .other) := by
  induction l with
  | nil => rfl
  | cons x r ih =>
    simp only [Impl.shiftAll, Spec.shiftMembers]
    cases Spec.shiftMember n x with
    | none => rfl
    | some y =>
      simp only [ih]
      cases Spec.shiftMembers n r <;> rfl

theorem union_mk_eq (a b : List V) : FinSet.union (FinSet.mk a) (FinSet.mk b) = FinSet.mk (a ++ b) := by
  apply FinSet.sorted_ext _ _ (FinSet.sorted_union _ _ (FinSet.sorted_mk _)) (FinSet.sorted_mk _)
  intro x
  simp [FinSet.mem_union, FinSet.mem_mk]

/-- Concatenate against the specification: what both sides compute, before the builder -/
theorem concat_spec (a b : Coll) (hc : Impl.count a = Spec.card a.den) :
    Spec.concat a.den b.den =
      (match Spec.shiftMembers (Int.ofNat (Impl.count a)) b.members with
       | some ys => .ok (V.mkSet (a.members ++ ys))
       | none => .error .other) := by
  have hs := shift_den (Int.ofNat (Impl.count a)) b
  rw [hc] at hs ⊢
  simp only [Spec.concat] at hs ⊢
  rw [hs]
  cases Spec.shiftMembers (Int.ofNat (Spec.card a.den)) b.members with
  | none => simp [Coll.den, V.mkSet]
  | some ys => simp [Coll.den, V.mkSet, union_mk_eq]

theorem concat_impl (a b : Coll) :
    Impl.concat a b =
      (match Spec.shiftMembers (Int.ofNat (Impl.count a)) b.members with
       | some ys => .ok (Impl.build (a.members ++ ys))
       | none => .error .other) := by
  simp only [Impl.concat, shiftAll_eq]
  cases Spec.shiftMembers (Int.ofNat (Impl.count a)) b.members <;> rfl

theorem shiftMember_none_indep (n n' : Int) (x : V) :
    Spec.shiftMember n x = none ↔ Spec.shiftMember n' x = none := by
  unfold Spec.shiftMember
  cases x with
  | tup as =>
    simp only
    cases h : as.lookup "@" with
    | none => simp
    | some v => cases v <;> simp
  | _ => simp

theorem shiftMembers_none_indep (n n' : Int) (l : List V) :
    Spec.shiftMembers n l = none ↔ Spec.shiftMembers n' l = none := by
  rw [shiftMembers_none, shiftMembers_none]
  constructor
  · rintro ⟨x, hx, h⟩; exact ⟨x, hx, (shiftMember_none_indep n n' x).1 h⟩
  · rintro ⟨x, hx, h⟩; exact ⟨x, hx, (shiftMember_none_indep n n' x).2 h⟩

/-- whether `++` fails does not depend on the count -/
theorem concat_spec_none (a b : Coll) (n : Int) :
    (Spec.concat a.den b.den).value? = none ↔ Spec.shiftMembers n b.members = none := by
  have hs := shift_den (Int.ofNat (Spec.card a.den)) b
  rw [shiftMembers_none_indep n (Int.ofNat (Spec.card a.den))]
  simp only [Spec.concat]
  rw [hs]
  cases Spec.shiftMembers (Int.ofNat (Spec.card a.den)) b.members with
  | none => simp [Coll.den, V.mkSet, Res.value?]
  | some ys => simp [Coll.den, V.mkSet, Res.value?]

/-! ## `>>` through the generic `case Set` loop -/

/-- the generic `case Set` loop IS the specification's member map in generic mode: same values,
same errors, same order -/
theorem setLoop_eq (f : F) (l : List V) : Impl.setLoop f l = Spec.mapMembers .generic f l := by
  induction l with
  | nil => rfl
  | cons x r ih =>
    unfold Impl.setLoop Spec.mapMembers Spec.mapMember
    cases hp : asPair x with
    | none => rfl
    | some p =>
      obtain ⟨k, n, v⟩ := p
      simp only
      cases hf : f k v with
      | error e => rfl
      | ok w =>
        simp only [Spec.valueOk]
        by_cases hn : n = "@char" ∨ n = "@byte"
        · by_cases hw : isNum w = true
          · simp [hn, hw, ih]
          · have hw' : isNum w = false := by simpa using hw
            simp [hn, hw']
        · simp [hn, ih]

theorem bytesLoop_lt {f : F} {off : Int} {bs out : List Nat} (h : Impl.bytesLoop f off bs = .ok out) :
    ∀ b ∈ out, b < 256 := by
  induction bs generalizing off out with
  | nil => simp only [Impl.bytesLoop, Except.ok.injEq] at h; subst h; simp
  | cons b bs ih =>
    unfold Impl.bytesLoop at h
    cases hf : f (.num off) (.num (Int.ofNat b)) with
    | error e => rw [hf] at h; simp at h
    | ok w =>
      rw [hf] at h
      simp only at h
      cases hv : Impl.validByte w with
      | none => rw [hv] at h; simp at h
      | some c =>
        rw [hv] at h
        simp only at h
        cases hl : Impl.bytesLoop f (off + 1) bs with
        | error e => rw [hl] at h; simp at h
        | ok out' =>
          rw [hl] at h
          simp only [Except.ok.injEq] at h; subst h
          intro x hx
          rcases List.mem_cons.1 hx with rfl | hx
          · exact (validByte_some hv).2
          · exact ih hl x hx

theorem seqArrow_set (f : F) (c : Coll) (h : c.isSugar = false) :
    Impl.seqArrow f c =
      (match Impl.setLoop f c.members with | .ok out => .ok (Impl.build out) | .error e => .error e) := by
  cases c with
  | one b => cases b <;> first | rfl | simp [Coll.isSugar] at h
  | _ => rfl

/-! ## what the builder returns is well-formed (so it can be called again) -/

theorem keys_dictPut (m : List (V × List V)) (k v : V) :
    (Impl.dictPut m k v).map (·.1) = if k ∈ m.map (·.1) then m.map (·.1) else m.map (·.1) ++ [k] := by
  induction m with
  | nil => simp [Impl.dictPut]
  | cons e r ih =>
    obtain ⟨k', vs⟩ := e
    unfold Impl.dictPut
    by_cases h : k' = k
    · subst h; simp
    · have h' : ¬ k = k' := fun e => h e.symm
      simp only [h, if_false, List.map_cons, ih, List.mem_cons, h', false_or]
      split <;> simp

theorem nodup_dictPut (m : List (V × List V)) (k v : V) (h : (m.map (·.1)).Nodup) :
    ((Impl.dictPut m k v).map (·.1)).Nodup := by
  rw [keys_dictPut]
  split
  · exact h
  · rename_i hk
    rw [List.nodup_append]
    refine ⟨h, by simp, ?_⟩
    intro a ha b hb
    simp only [List.mem_singleton] at hb
    subst hb
    intro e; subst e; exact hk ha

theorem nodup_newDict (es : List (V × V)) : ((Impl.newDict es).map (·.1)).Nodup := by
  unfold Impl.newDict
  suffices h : ∀ (m : List (V × List V)), (m.map (·.1)).Nodup →
      ((es.foldl (fun m e => Impl.dictPut m e.1 e.2) m).map (·.1)).Nodup from h [] (by simp)
  induction es with
  | nil => intro m hm; exact hm
  | cons e r ih => intro m hm; exact ih _ (nodup_dictPut m e.1 e.2 hm)

theorem classify_other {x : V} (h : classify x = .other) : isPair x = false := by
  rcases classify_cases x with ⟨_, _, h1, _⟩ | ⟨_, _, h1, _⟩ | ⟨_, _, h1, _⟩ | ⟨_, _, h1, _⟩ | ⟨_, _, _, h1, _⟩ | ⟨_, h2⟩
  · rw [h1] at h; cases h
  · rw [h1] at h; cases h
  · rw [h1] at h; cases h
  · rw [h1] at h; cases h
  · rw [h1] at h; cases h
  · simp [isPair, h2]

theorem wf_ofBuckets (bs : List Bucket) (h : bs.all Bucket.wf = true) : (Impl.ofBuckets bs).wf = true := by
  cases bs with
  | nil => rfl
  | cons b r =>
    cases r with
    | nil => simpa [Impl.ofBuckets, Coll.wf] using h
    | cons b' r' => exact h

theorem all_wf_append (a b : List Bucket) :
    (a ++ b).all Bucket.wf = true ↔ a.all Bucket.wf = true ∧ b.all Bucket.wf = true := by
  simp [List.all_append]

theorem nodup_dedup {α : Type} [DecidableEq α] (l : List α) : (dedup l).Nodup := by
  induction l with
  | nil => simp [dedup]
  | cons x r ih =>
    unfold dedup
    split
    · exact ih
    · rename_i h; exact List.nodup_cons.2 ⟨h, ih⟩

theorem eq_singleton_of_all_eq {α : Type} {l : List α} {a : α} (hne : l ≠ []) (hnd : l.Nodup)
    (h : ∀ x ∈ l, x = a) : l = [a] := by
  cases l with
  | nil => exact absurd rfl hne
  | cons x r =>
    have hx := h x (by simp)
    subst hx
    cases r with
    | nil => rfl
    | cons y r' =>
      have hy := h y (by simp)
      subst hy
      simp at hnd

/-- SetBuilder.Finish establishes the invariants `call_refines` asks for -/
theorem wf_build (xs : List V) : (Impl.build xs).wf = true := by
  apply wf_ofBuckets
  simp only [Impl.buckets, all_wf_append]
  refine ⟨?_, ?_, ?_, ?_, ?_, ?_⟩
  · split <;> simp [Impl.asString, Bucket.wf]
  · split
    · rfl
    · simp only [Impl.asBytes, List.all_cons, List.all_nil, Bool.and_true, Bucket.wf, List.all_map,
        List.all_eq_true, Function.comp_apply, decide_eq_true_eq]
      intro o _
      exact Nat.mod_lt _ (by decide)
  · split <;> simp [Impl.asArray, Bucket.wf]
  · split
    · rfl
    · simp only [List.all_cons, List.all_nil, Bool.and_true, Bucket.wf, decide_eq_true_eq]
      exact nodup_newDict _
  · simp only [Impl.relBuckets, List.all_map, List.all_eq_true, Function.comp_apply, Bucket.wf,
      decide_eq_true_eq, Impl.relNames, mem_dedup, List.mem_map]
    rintro n ⟨p, hp, rfl⟩
    obtain ⟨x, _, hc⟩ := (mem_pairsOf xs p).1 hp
    exact (classify_pair hc).2
  · split
    · rfl
    · split
      · rfl
      · rename_i hne _
        simp only [List.all_cons, List.all_nil, Bool.and_true, Bucket.wf, Bool.and_eq_true,
          Bool.not_eq_true', List.isEmpty_eq_false_iff, List.all_eq_true, mem_dedup]
        have hnil : dedup (othersOf xs) ≠ [] := by
          intro he
          have : ∀ y, y ∉ othersOf xs := fun y hy => by
            have := (mem_dedup (othersOf xs) y).2 hy
            rw [he] at this; simp at this
          apply hne
          simp only [List.isEmpty_iff]
          exact List.eq_nil_iff_forall_not_mem.2 this
        refine ⟨⟨hnil, fun x hx => classify_other ((mem_othersOf xs x).1 hx).2⟩, ?_⟩
        rename_i hns
        simp only [List.any_eq_true, decide_eq_true_eq]
        apply Classical.byContradiction
        intro hall
        apply hns
        exact eq_singleton_of_all_eq hnil (nodup_dedup _) (fun x hx => by
          apply Classical.byContradiction
          intro hx'
          exact hall ⟨x, hx, hx'⟩)

end Arrai.C05
