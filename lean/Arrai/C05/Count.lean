/-
  C05: `Count()` of every representation is the number of members of its meaning
  (what `Concatenate` shifts the right operand by).
-/
import Arrai.C05.Build

namespace Arrai.C05
open Arrai KSeq

theorem length_mk_of_nodup (l : List V) (h : l.Nodup) : (FinSet.mk l).length = l.length := by
  induction l with
  | nil => rfl
  | cons x r ih =>
    have hx : x ∉ r := (List.nodup_cons.1 h).1
    have hr := ih (List.nodup_cons.1 h).2
    show FinSet.card (FinSet.ins x (FinSet.mk r)) = _
    rw [FinSet.card_ins x _ (FinSet.sorted_mk r)]
    have : x ∉ FinSet.mk r := fun hm => hx ((FinSet.mem_mk _ _).1 hm)
    simp [this, FinSet.card, hr]

theorem nodup_map_of_inj {α β : Type} (f : α → β) (hinj : ∀ a b, f a = f b → a = b) (l : List α)
    (h : l.Nodup) : (l.map f).Nodup := by
  induction l with
  | nil => simp
  | cons x r ih =>
    rw [List.nodup_cons] at h
    simp only [List.map_cons, List.nodup_cons, List.mem_map, not_exists, not_and]
    refine ⟨fun y hy e => ?_, ih h.2⟩
    have := hinj _ _ e
    subst this
    exact h.1 hy

theorem pair_inj {name : String} (hn : name ≠ "@") {k k' v v' : V}
    (h : V.pair name k v = V.pair name k' v') : k = k' ∧ v = v' := by
  have := congrArg asPair h
  rw [asPair_pair name k v hn, asPair_pair name k' v' hn] at this
  simp only [Option.some.injEq, Prod.mk.injEq, true_and] at this
  exact ⟨this.1, this.2⟩

theorem kden_lt {α : Type} {off i : Int} {v : α} {xs : List (Option α)} (h : (i, v) ∈ kden (off + 1) xs) :
    off < i := by
  have := kden_ge h; omega

theorem nodup_kden {α : Type} (off : Int) (xs : List (Option α)) : (kden off xs).Nodup := by
  induction xs generalizing off with
  | nil => simp [kden]
  | cons x r ih =>
    cases x with
    | none => exact ih (off + 1)
    | some a =>
      simp only [kden, List.nodup_cons]
      exact ⟨fun h => by have := kden_lt h; omega, ih (off + 1)⟩

theorem length_kden {α : Type} (off : Int) (xs : List (Option α)) :
    (kden off xs).length = (xs.filter Option.isSome).length := by
  induction xs generalizing off with
  | nil => rfl
  | cons x r ih => cases x <;> simp [kden, ih]

theorem nodup_seqMembers (name : String) (hn : name ≠ "@") (off : Int) (slots : List (Option V)) :
    (seqMembers name off slots).Nodup := by
  unfold seqMembers
  apply nodup_map_of_inj _ _ _ (nodup_kden off slots)
  intro a b e
  obtain ⟨h1, h2⟩ := pair_inj hn e
  simp only [V.num.injEq] at h1
  exact Prod.ext h1 h2

theorem length_seqMembers (name : String) (off : Int) (slots : List (Option V)) :
    (seqMembers name off slots).length = (slots.filter Option.isSome).length := by
  simp [seqMembers, length_kden]

theorem strSlots_some_length (rs : List Int) :
    ((strSlots rs).filter Option.isSome).length = rs.length - Impl.holesOf rs := by
  induction rs with
  | nil => rfl
  | cons r rs ih =>
    have hle : Impl.holesOf rs ≤ rs.length := by
      unfold Impl.holesOf; exact List.length_filter_le _ _
    by_cases hr : r < 0
    · simp only [strSlots, List.map_cons, hr, if_true, Impl.holesOf, List.filter_cons, decide_true,
        List.length_cons] at ih ⊢
      simp only [strSlots, Impl.holesOf] at ih hle
      simp [ih]
    · simp only [strSlots, List.map_cons, hr, if_false, Impl.holesOf, List.filter_cons, decide_false,
        List.length_cons] at ih ⊢
      simp only [strSlots, Impl.holesOf] at ih hle
      simp only [Option.isSome_some, if_true, List.length_cons, ih]
      simp only [Bool.false_eq_true, if_false]
      omega

theorem byteSlots_some_length (bs : List Nat) : ((byteSlots bs).filter Option.isSome).length = bs.length := by
  induction bs with
  | nil => rfl
  | cons b bs ih => simp only [byteSlots, List.map_cons, Int.ofNat_eq_natCast] at ih ⊢; simp [ih]

theorem nodup_dictMembers (m : List (V × List V)) (hk : (m.map (·.1)).Nodup)
    (hv : ∀ e ∈ m, e.2.Nodup) : (dictMembers m).Nodup := by
  induction m with
  | nil => simp [dictMembers]
  | cons e r ih =>
    obtain ⟨k, vs⟩ := e
    simp only [List.map_cons, List.nodup_cons] at hk
    simp only [dictMembers]
    rw [List.nodup_append]
    refine ⟨?_, ih hk.2 (fun e he => hv e (List.mem_cons_of_mem _ he)), ?_⟩
    · apply nodup_map_of_inj _ _ _ (hv (k, vs) (by simp))
      intro a b e
      exact (pair_inj (by decide) e).2
    · intro x hx y hy e
      subst e
      simp only [List.mem_map] at hx
      obtain ⟨v, _, rfl⟩ := hx
      obtain ⟨k', vs', hm, w, _, e⟩ := (mem_dictMembers r _).1 hy
      have := (pair_inj (by decide) e).1
      subst this
      exact hk.1 (List.mem_map.2 ⟨(k, vs'), hm, rfl⟩)

theorem length_dictMembers (m : List (V × List V)) : (dictMembers m).length = Impl.dictCount m := by
  induction m with
  | nil => rfl
  | cons e r ih => obtain ⟨k, vs⟩ := e; simp [dictMembers, Impl.dictCount, ih]

theorem bucket_count (b : Bucket) (h : b.wfCount = true) :
    b.members.Nodup ∧ b.members.length = Impl.bucketCount b := by
  cases b with
  | str off rs =>
    exact ⟨nodup_seqMembers _ (by decide) _ _, by
      simp [Bucket.members, length_seqMembers, strSlots_some_length, Impl.bucketCount]⟩
  | bytes off bs =>
    exact ⟨nodup_seqMembers _ (by decide) _ _, by
      simp [Bucket.members, length_seqMembers, byteSlots_some_length, Impl.bucketCount]⟩
  | arr off vs =>
    exact ⟨nodup_seqMembers _ (by decide) _ _, by simp [Bucket.members, length_seqMembers, Impl.bucketCount]⟩
  | dict m =>
    simp only [Bucket.wfCount, Bool.and_eq_true, decide_eq_true_eq, List.all_eq_true] at h
    exact ⟨nodup_dictMembers m h.1 h.2, length_dictMembers m⟩
  | rel atFirst name rows =>
    simp only [Bucket.wfCount, Bool.and_eq_true, decide_eq_true_eq] at h
    refine ⟨?_, by simp [Bucket.members, Impl.bucketCount]⟩
    apply nodup_map_of_inj _ _ _ h.2
    intro a b e
    obtain ⟨h1, h2⟩ := pair_inj h.1 e
    cases atFirst <;> simp only [relRow, Bool.false_eq_true, if_false, if_true] at h1 h2 <;>
      exact Prod.ext (by assumption) (by assumption)
  | other xs =>
    simp only [Bucket.wfCount, decide_eq_true_eq] at h
    exact ⟨h, rfl⟩
  | tt => exact ⟨by simp [Bucket.members], rfl⟩

theorem buckets_count (bs : List Bucket) (h : bs.all Bucket.wfCount = true) (hd : disjointB bs = true) :
    (bucketsMembers bs).Nodup ∧ (bucketsMembers bs).length = Impl.bucketsCount bs := by
  induction bs with
  | nil => simp [bucketsMembers, Impl.bucketsCount]
  | cons b r ih =>
    simp only [List.all_cons, Bool.and_eq_true] at h
    simp only [disjointB, Bool.and_eq_true, List.all_eq_true, Bool.not_eq_true', decide_eq_false_iff_not] at hd
    obtain ⟨hb1, hb2⟩ := bucket_count b h.1
    obtain ⟨hr1, hr2⟩ := ih h.2 hd.2
    refine ⟨?_, by simp [bucketsMembers, Impl.bucketsCount, hb2, hr2]⟩
    simp only [bucketsMembers]
    rw [List.nodup_append]
    exact ⟨hb1, hr1, fun x hx y hy e => hd.1 x hx (e ▸ hy)⟩

/-- `Count()` is the number of members of the meaning, for every representation -/
theorem count_eq_card (c : Coll) (h : c.wfCount = true) : Impl.count c = Spec.card c.den := by
  have key : ∀ (ms : List V) (n : Nat), ms.Nodup → ms.length = n → n = Spec.card (V.mkSet ms) := by
    intro ms n hnd hl
    simp only [V.mkSet, Spec.card, length_mk_of_nodup ms hnd, hl]
  cases c with
  | empty => rfl
  | true_ => exact key [.tup []] 1 (by simp) rfl
  | one b =>
    obtain ⟨h1, h2⟩ := bucket_count b h
    exact key _ _ h1 h2
  | union bs =>
    simp only [Coll.wfCount, Bool.and_eq_true] at h
    obtain ⟨h1, h2⟩ := buckets_count bs h.1 h.2
    exact key _ _ h1 h2

end Arrai.C05
