/-
  C05 — keyed collections act as functions; `>>`, `>>>`, `++` and offsets keep keys right.

  `Spec`  : the property on meanings (`V`): a keyed collection is a set of pairs `(@: k, x: v)`;
            `call`, `safeCall`, `mapVals`, `shift`, `concat`, `offset`.
  `Impl`  : transliteration of rel/value.go (SetCall), value_set_{str,bytes,array,dict,rel,union,
            generic,empty,true}.go (CallAll), expr_seqmap.go (SeqArrowExpr.Eval), ops_rel.go
            (Concatenate), expr_offset.go (OffsetExpr.Eval), NewOffsetArray/String/Bytes,
            asString/asBytes/asArray + SetBuilder.Finish (the builder the results go through),
            and the error classification of compileSafeTails / SafeTailExpr — as repaired.
  Elements of collections are meanings (`V`): the anchored code treats them opaquely.
  Core-only.
-/
import Arrai.Core.Canon

namespace Arrai.C05

/-- an argument of a call / an offset: a value, or the non-integer number `n + 1/2`
(`V` has integers only; a fractional number is never equal to a key of a modelled collection) -/
inductive Arg where
  | val (v : V)
  | frac (n : Int)
  deriving DecidableEq, Inhabited

/-- error classes (never messages) -/
inductive Err where
  | noReturn   -- rel.NoReturnError: no value for this argument
  | tooMany    -- "too many return values"
  | other      -- anything else (type errors, errElementsNotMatchingAt, …)
  deriving DecidableEq, Inhabited, Repr

abbrev Res (α : Type) := Except Err α

/-- forget the error class -/
def Res.value? {α : Type} : Res α → Option α
  | .ok a => some a
  | .error _ => none

/-- a transformer as `SeqArrowExpr` calls it: `call(at, v)` (for `>>` the key is ignored) -/
abbrev F := V → V → Res V

/-! ## pairs `(@: k, name: v)` -/

/-- `some (k, name, v)` iff `x` is a canonical two-attribute tuple one of whose names is `@` -/
def asPair : V → Option (V × String × V)
  | .tup [(a, x), (b, y)] =>
    if a = "@" ∧ "@" < b then some (x, b, y)
    else if b = "@" ∧ a ≠ "@" ∧ ¬ ("@" < a) then some (y, a, x)
    else none
  | _ => none

def isPair (x : V) : Bool := (asPair x).isSome

def isNum : V → Bool
  | .num _ => true
  | _ => false

/-! ## generic keyed sequences: slots `List (Option α)` + offset (String, Bytes, Array) -/
namespace KSeq
variable {α β : Type}

/-- the (index, value) pairs held by `xs` starting at index `off` -/
def kden (off : Int) : List (Option α) → List (Int × α)
  | [] => []
  | some x :: r => (off, x) :: kden (off + 1) r
  | none :: r => kden (off + 1) r

/-- `i -= offset; if 0 <= i && i < len(values) { if v := values[i]; v != nil {…} }` -/
def kget (off : Int) (xs : List (Option α)) (i : Int) : Option α :=
  let j := i - off
  if 0 ≤ j ∧ j < xs.length then xs.getD j.toNat none else none

/-- `for at, item := range values { if item != nil { items[at], err = call(offset+at, item) … } }` -/
def kmapM (f : Int → α → Res β) : Int → List (Option α) → Res (List (Option β))
  | _, [] => .ok []
  | off, none :: r =>
    match kmapM f (off + 1) r with
    | .ok ys => .ok (none :: ys)
    | .error e => .error e
  | off, some x :: r =>
    match f off x with
    | .error e => .error e
    | .ok y =>
      match kmapM f (off + 1) r with
      | .ok ys => .ok (some y :: ys)
      | .error e => .error e

/-- the pair-level counterpart of `kmapM` -/
def pmapM (f : Int → α → Res β) : List (Int × α) → Res (List (Int × β))
  | [] => .ok []
  | (i, x) :: r =>
    match f i x with
    | .error e => .error e
    | .ok y =>
      match pmapM f r with
      | .ok ys => .ok ((i, y) :: ys)
      | .error e => .error e

/-- NewOffsetArray: trim holes from the front (adding to the offset) … -/
def trimFront : Int → List (Option α) → Int × List (Option α)
  | off, none :: r => trimFront (off + 1) r
  | off, xs => (off, xs)

/-- … and from the back -/
def trimBack : List (Option α) → List (Option α)
  | [] => []
  | x :: r =>
    match trimBack r with
    | [] => (match x with | none => [] | some v => [some v])
    | r' => x :: r'

/-- asString/asArray/asBytes: the slot at index `i` is the *last* pair with that index -/
def slotAt (ts : List (Int × α)) (i : Int) : Option α :=
  ts.foldl (fun acc t => if t.1 = i then some t.2 else acc) none

def minIdx : List (Int × α) → Int
  | [] => 0
  | [t] => t.1
  | t :: r => min t.1 (minIdx r)

def maxIdx : List (Int × α) → Int
  | [] => 0
  | [t] => t.1
  | t :: r => max t.1 (maxIdx r)

def slotsFrom (ts : List (Int × α)) (lo : Int) : Nat → List (Option α)
  | 0 => []
  | n + 1 => slotAt ts lo :: slotsFrom ts (lo + 1) n

/-- offset and slots from `min` to `max` index -/
def fill (ts : List (Int × α)) : Int × List (Option α) :=
  (minIdx ts, slotsFrom ts (minIdx ts) (maxIdx ts - minIdx ts + 1).toNat)

end KSeq

/-! ## representations -/

/-- one homogeneous Go set value (a bucket of a `UnionSet`, or a set on its own) -/
inductive Bucket where
  | str (off : Int) (rs : List Int)                 -- String{s, offset}: a negative rune is a hole
  | bytes (off : Int) (bs : List Nat)               -- Bytes{b, offset}
  | arr (off : Int) (vs : List (Option V))          -- Array{values, offset}: nil is a hole
  | dict (m : List (V × List V))                    -- Dict: key ↦ value | multipleValues
  | rel (atFirst : Bool) (name : String) (rows : List (V × V))  -- Relation, heading {@, name}; rows in column order
  | other (xs : List V)                             -- GenericSet, or a Relation whose heading is not {@, x}
  | tt                                              -- TrueSet as the generic bucket of a UnionSet
  deriving Inhabited

inductive Coll where
  | empty                      -- EmptySet
  | true_                      -- TrueSet
  | one (b : Bucket)
  | union (bs : List Bucket)   -- UnionSet
  deriving Inhabited

def strSlots (rs : List Int) : List (Option V) := rs.map (fun r => if r < 0 then none else some (.num r))
def byteSlots (bs : List Nat) : List (Option V) := bs.map (fun b => some (.num (Int.ofNat b)))

def seqMembers (name : String) (off : Int) (slots : List (Option V)) : List V :=
  (KSeq.kden off slots).map (fun t => V.pair name (.num t.1) t.2)

def dictMembers : List (V × List V) → List V
  | [] => []
  | (k, vs) :: r => vs.map (fun v => V.pair "@value" k v) ++ dictMembers r

def relRow (atFirst : Bool) (r : V × V) : V × V := if atFirst then (r.1, r.2) else (r.2, r.1)

def Bucket.members : Bucket → List V
  | .str off rs => seqMembers "@char" off (strSlots rs)
  | .bytes off bs => seqMembers "@byte" off (byteSlots bs)
  | .arr off vs => seqMembers "@item" off vs
  | .dict m => dictMembers m
  | .rel atFirst name rows => rows.map (fun r => V.pair name (relRow atFirst r).1 (relRow atFirst r).2)
  | .other xs => xs
  | .tt => [.tup []]

def bucketsMembers : List Bucket → List V
  | [] => []
  | b :: r => b.members ++ bucketsMembers r

def Coll.members : Coll → List V
  | .empty => []
  | .true_ => [.tup []]
  | .one b => b.members
  | .union bs => bucketsMembers bs

/-- what a representation means -/
def Coll.den (c : Coll) : V := V.mkSet c.members

/-- the representations `n \ s` applies to: String, Bytes, Array and the empty set -/
def Coll.isSeq : Coll → Bool
  | .empty => true
  | .one (.str _ _) => true
  | .one (.bytes _ _) => true
  | .one (.arr _ _) => true
  | _ => false

/-- the representations `SeqArrowExpr.Eval` has a case of their own for -/
def Coll.isSugar : Coll → Bool
  | .one (.str _ _) => true
  | .one (.bytes _ _) => true
  | .one (.arr _ _) => true
  | .one (.dict _) => true
  | _ => false

/-- the invariants the Go constructors establish that the theorems need -/
def Bucket.wf : Bucket → Bool
  | .dict m => decide ((m.map (·.1)).Nodup)
  | .bytes _ bs => bs.all (fun b => decide (b < 256))
  | .rel _ name _ => decide (name ≠ "@")
  | .other xs => !xs.isEmpty && xs.all (fun x => !isPair x) && xs.any (fun x => decide (x ≠ .tup []))
  | _ => true

def Coll.wf : Coll → Bool
  | .one b => b.wf
  | .union bs => bs.all Bucket.wf
  | _ => true

/-- what `Count()` relies on: a frozen set / map holds every member once, and the buckets of a
UnionSet are disjoint -/
def Bucket.wfCount : Bucket → Bool
  | .dict m => decide ((m.map (·.1)).Nodup) && m.all (fun e => decide e.2.Nodup)
  | .rel _ name rows => decide (name ≠ "@") && decide rows.Nodup
  | .other xs => decide xs.Nodup
  | _ => true

def disjointB : List Bucket → Bool
  | [] => true
  | b :: r => b.members.all (fun x => !decide (x ∈ bucketsMembers r)) && disjointB r

def Coll.wfCount : Coll → Bool
  | .one b => b.wfCount
  | .union bs => bs.all Bucket.wfCount && disjointB bs
  | _ => true

/-! ## how the set builder sorts members into buckets (`v.getBucket()` after `NewTuple`) -/

inductive Class where
  | char (i c : Int) | byte (i : Int) (b : Int) | item (i : Int) (v : V) | entry (k v : V)
  | pair (k : V) (name : String) (v : V) | other

def classify (x : V) : Class :=
  match asPair x with
  | some (.num i, name, v) =>
    -- specialTuple: "a @char or @byte must be in range, otherwise the tuple stays generic"
    if name = "@char" then
      (match v with
       | .num c => if 0 ≤ c ∧ c ≤ 1114111 then .char i c else .pair (.num i) name v
       | _ => .pair (.num i) name v)
    else if name = "@byte" then
      (match v with
       | .num b => if 0 ≤ b ∧ b ≤ 255 then .byte i b else .pair (.num i) name v
       | _ => .pair (.num i) name v)
    else if name = "@item" then .item i v
    else if name = "@value" then .entry (.num i) v
    else .pair (.num i) name v
  | some (k, name, v) => if name = "@value" then .entry k v else .pair k name v
  | none => .other

def charsOf (xs : List V) : List (Int × Int) :=
  xs.filterMap (fun x => match classify x with | .char i c => some (i, c) | _ => none)
def bytesOf (xs : List V) : List (Int × Int) :=
  xs.filterMap (fun x => match classify x with | .byte i b => some (i, b) | _ => none)
def itemsOf (xs : List V) : List (Int × V) :=
  xs.filterMap (fun x => match classify x with | .item i v => some (i, v) | _ => none)
def entriesOf (xs : List V) : List (V × V) :=
  xs.filterMap (fun x => match classify x with | .entry k v => some (k, v) | _ => none)
def pairsOf (xs : List V) : List (String × V × V) :=
  xs.filterMap (fun x => match classify x with | .pair k n v => some (n, k, v) | _ => none)
def othersOf (xs : List V) : List V :=
  xs.filter (fun x => match classify x with | .other => true | _ => false)

/-- remove repetitions (a frozen set / map holds a member once) -/
def dedup {α : Type} [DecidableEq α] : List α → List α
  | [] => []
  | x :: r => if x ∈ dedup r then dedup r else x :: dedup r

/-! ## Spec -/
namespace Spec

/-- the value of member `x` at key `k` -/
def valAt (k : Arg) (x : V) : Option V :=
  match asPair x with
  | some (a, _, v) => if Arg.val a = k then some v else none
  | none => none

/-- the members of a set value -/
def members : V → List V
  | .set xs => xs
  | _ => []

/-- a keyed collection: a set all of whose members are pairs -/
def keyed : V → Bool
  | .set xs => xs.all isPair
  | _ => false

/-- exactly one value ⇒ it; none ⇒ `noReturn`; several ⇒ `tooMany` -/
def exactlyOne : List V → Res V
  | [] => .error .noReturn
  | [v] => .ok v
  | _ => .error .tooMany

/-- `S(k)`: the unique value paired with `k` -/
def call (S : V) (k : Arg) : Res V :=
  match S with
  | .set xs => exactlyOne (FinSet.mk (xs.filterMap (valAt k)))
  | _ => .error .other

/-- `S(k)?:d`: `d` exactly when there is no value; the flag says whether the fallback was taken -/
def safeCall (S : V) (k : Arg) (d : V) : Bool × Res V :=
  match call S k with
  | .error .noReturn => (true, .ok d)
  | r => (false, r)

/-- a member that is neither a pair nor the empty tuple (`true` = `{()}` answers like the empty set) -/
def foreign (x : V) : Bool := !isPair x && decide (x ≠ .tup [])

/-- a call on ANY set: one foreign member makes it "cannot call sets with elements not matching
(@: _, _: _)" (class `other`); otherwise the pairs answer as in `call` -/
def callAny (S : V) (k : Arg) : Res V :=
  match S with
  | .set xs => if xs.any foreign then .error .other else call S k
  | _ => .error .other

/-- what a call argument EXPRESSION evaluates to: a value, or it fails -/
inductive ArgX where
  | val (a : Arg)
  | missingAttr        -- fails with a missing-attribute error, e.g. `(a: 1).b`
  | otherErr           -- fails any other way
  deriving DecidableEq, Inhabited

/-- `S(x)?:d` with an argument expression: the fallback is for "no value" only; a failing argument
is an error (docs/lang/exprs.md: only the accesses that end with `?` are allowed to fail) -/
def safeCallX (S : V) (x : ArgX) (d : V) : Bool × Res V :=
  match x with
  | .val a => safeCall S a d
  | _ => (false, .error .other)

def charMember (x : V) : Bool :=
  match asPair x with
  | some (.num _, name, .num c) => name = "@char" && decide (0 ≤ c)
  | _ => false

def byteMember (x : V) : Bool :=
  match asPair x with
  | some (.num _, name, .num b) => name = "@byte" && decide (0 ≤ b ∧ b < 256)
  | _ => false

/-- the meanings Go holds as a String: non-empty, every member `(@: int, @char: c)` with `c ≥ 0` -/
def isStringV : V → Bool
  | .set xs => !xs.isEmpty && xs.all charMember
  | _ => false

/-- … and as a byte array: non-empty, every member `(@: int, @byte: b)` with `0 ≤ b < 256` -/
def isBytesV : V → Bool
  | .set xs => !xs.isEmpty && xs.all byteMember
  | _ => false

/-- what `>>` demands of the transformed values depends on what the collection is -/
inductive Mode where
  | string    -- a string: "string >> … must produce valid chars"
  | bytes     -- a byte array: "bytes >> … must produce valid bytes"
  | generic   -- any other set of pairs: a @char or @byte value must stay a number, nothing else
  deriving DecidableEq, Inhabited

def modeOf (S : V) : Mode := if isStringV S then .string else if isBytesV S then .bytes else .generic

def valueOk (m : Mode) (name : String) (v : V) : Bool :=
  match m with
  | .string => (match v with | .num n => decide (0 ≤ n ∧ n < 2147483648) | _ => false)
  | .bytes => (match v with | .num n => decide (0 ≤ n ∧ n < 256) | _ => false)
  | .generic => if name = "@char" ∨ name = "@byte" then isNum v else true

/-- transform one member: the key and the attribute name stay, the value becomes `f k v` -/
def mapMember (m : Mode) (f : F) (x : V) : Res V :=
  match asPair x with
  | some (k, name, v) =>
    (match f k v with
     | .ok w => if valueOk m name w then .ok (V.pair name k w) else .error .other
     | .error e => .error e)
  | none => .error .other

def mapMembers (m : Mode) (f : F) : List V → Res (List V)
  | [] => .ok []
  | x :: r =>
    match mapMember m f x with
    | .error e => .error e
    | .ok y =>
      match mapMembers m f r with
      | .ok ys => .ok (y :: ys)
      | .error e => .error e

/-- `S >> f` / `S >>> f`: every key kept, every value transformed -/
def mapVals (f : F) (S : V) : Res V :=
  match S with
  | .set xs => (match mapMembers (modeOf S) f xs with | .ok ys => .ok (V.mkSet ys) | .error e => .error e)
  | _ => .error .other

/-- the keys of a keyed collection (with multiplicity of distinct members) -/
def keys : V → List V
  | .set xs => xs.filterMap (fun x => (asPair x).map (·.1))
  | _ => []

/-- move a member with a numeric `@` by `n` -/
def shiftMember (n : Int) : V → Option V
  | .tup as =>
    (match as.lookup "@" with
     | some (.num i) => some (.tup (as.map (fun p => if p.1 = "@" then (p.1, V.num (i + n)) else p)))
     | _ => none)
  | _ => none

def shiftMembers (n : Int) : List V → Option (List V)
  | [] => some []
  | x :: r =>
    match shiftMember n x, shiftMembers n r with
    | some y, some ys => some (y :: ys)
    | _, _ => none

def shift (n : Int) : V → Option V
  | .set xs => (shiftMembers n xs).map V.mkSet
  | _ => none

def card : V → Nat
  | .set xs => xs.length
  | _ => 0

/-- `A ++ B = A ∪ shift |A| B` -/
def concat (A B : V) : Res V :=
  match A, shift (Int.ofNat (card A)) B with
  | .set xs, some (.set ys) => .ok (.set (FinSet.union xs ys))
  | _, _ => .error .other

/-- `n \ S` -/
def offset (n : Arg) (S : V) : Res V :=
  match n with
  | .val (.num i) => (match shift i S with | some r => .ok r | none => .error .other)
  | _ => .error .other

/-- one value per index -/
def functionalB {α : Type} [DecidableEq α] (ts : List (Int × α)) : Bool :=
  ts.all (fun t => ts.all (fun u => t.1 != u.1 || decide (t.2 = u.2)))

/-- every index from the smallest to the largest is present -/
def denseB {α : Type} (ts : List (Int × α)) : Bool :=
  ts.isEmpty || (List.range (KSeq.maxIdx ts - KSeq.minIdx ts + 1).toNat).all
    (fun j => ts.any (fun t => t.1 == KSeq.minIdx ts + Int.ofNat j))

/-- two members with the same index and the same sequence attribute (`KF-superimposed`) -/
def superimposedList (xs : List V) : Bool :=
  !(functionalB (charsOf xs) && functionalB (bytesOf xs) && functionalB (itemsOf xs))

def superimposed : V → Bool
  | .set xs => superimposedList xs
  | _ => false

/-- a byte-array-headed part whose indices are not contiguous (`KF-bytes-holes`) -/
def bytesGapList (xs : List V) : Bool := !denseB (bytesOf xs)

def bytesGap : V → Bool
  | .set xs => bytesGapList xs
  | _ => false

/-- chars are non-negative, bytes are bytes (the range in which `NewTuple` specialises faithfully) -/
def inRangeList (xs : List V) : Bool :=
  (charsOf xs).all (fun t => decide (0 ≤ t.2)) && (bytesOf xs).all (fun t => decide (0 ≤ t.2 ∧ t.2 < 256))

/-- a set the sequence representations can hold exactly -/
def representableList (xs : List V) : Bool := !superimposedList xs && !bytesGapList xs && inRangeList xs

def representable : V → Bool
  | .set xs => representableList xs
  | _ => false

/-- the admissibility hypothesis of the `_partial` theorems: the specified result, if there is one,
is a set the sequence representations can hold (outside `KF-superimposed` / `KF-bytes-holes`) -/
def okRepresentable : Res V → Bool
  | .ok R => representable R
  | .error _ => true

end Spec

/-! ## Impl -/
namespace Impl
open KSeq

/-- `n, ok := arg.(Number); i, is := n.Int()` -/
def argInt : Arg → Option Int
  | .val (.num i) => some i
  | _ => none

/-- String/Bytes/Array.CallAll (String as repaired: a negative rune adds nothing) -/
def seqCallAll (off : Int) (slots : List (Option V)) (arg : Arg) : List V :=
  match argInt arg with
  | some i => (match kget off slots i with | some v => [v] | none => [])
  | none => []

/-- `d.m.Get(arg)` -/
def dictGet : List (V × List V) → Arg → Option (List V)
  | [], _ => none
  | (k, vs) :: r, a => if Arg.val k = a then some vs else dictGet r a

/-- Relation.CallAll / positionalRelation.CallAll: rows whose `@` column equals the argument -/
def relCallAll (atFirst : Bool) : List (V × V) → Arg → List V
  | [], _ => []
  | r :: rs, a =>
    if Arg.val (relRow atFirst r).1 = a then (relRow atFirst r).2 :: relCallAll atFirst rs a
    else relCallAll atFirst rs a

def callAll : Bucket → Arg → Res (List V)
  | .str off rs, a => .ok (seqCallAll off (strSlots rs) a)
  | .bytes off bs, a => .ok (seqCallAll off (byteSlots bs) a)
  | .arr off vs, a => .ok (seqCallAll off vs a)
  | .dict m, a => .ok ((dictGet m a).getD [])
  | .rel atFirst _ rows, a => .ok (relCallAll atFirst rows a)
  | .other _, _ => .error .other            -- errElementsNotMatchingAt
  | .tt, _ => .ok []                        -- TrueSet.CallAll

/-- UnionSet.CallAll: every bucket, the first error wins -/
def callAllBuckets : List Bucket → Arg → Res (List V)
  | [], _ => .ok []
  | b :: r, a =>
    match callAll b a with
    | .error e => .error e
    | .ok vs =>
      match callAllBuckets r a with
      | .error e => .error e
      | .ok ws => .ok (vs ++ ws)

def collCallAll : Coll → Arg → Res (List V)
  | .empty, _ => .ok []
  | .true_, _ => .ok []
  | .one b, a => callAll b a
  | .union bs, a => callAllBuckets bs a

/-- SetCall: the results go through a set builder; exactly one member ⇒ it -/
def setCall (c : Coll) (a : Arg) : Res V :=
  match collCallAll c a with
  | .error e => .error e
  | .ok vs =>
    match FinSet.mk vs with
    | [] => .error .noReturn
    | [v] => .ok v
    | _ => .error .tooMany

/-- compileSafeTails.safeCallback: NoReturnError ⇒ (nil, nil); every other error is passed on
(its ContextErr{MissingAttrError} case cannot come out of SetCall) -/
def safeCallback (r : Res V) : Res (Option V) :=
  match r with
  | .ok v => .ok (some v)
  | .error .noReturn => .ok none
  | .error e => .error e

/-- SafeTailExpr.Eval with one safe call tail: `c(k)?:d` -/
def safeCall (c : Coll) (k : Arg) (d : V) : Bool × Res V :=
  match safeCallback (setCall c k) with
  | .error e => (false, .error e)
  | .ok none => (true, .ok d)
  | .ok (some v) => (false, .ok v)

/-- compileTailFunc + safeCallback with an argument expression: `arg.Eval` failing with a
ContextErr{MissingAttrError} is caught by safeCallback just like a missing attribute of the
accessed tuple, so the fallback is taken (KF-safecall-arg-missing-attr); other failures pass -/
def safeCallX (c : Coll) (x : Spec.ArgX) (d : V) : Bool × Res V :=
  match x with
  | .val a => safeCall c a d
  | .missingAttr => (true, .ok d)
  | .otherErr => (false, .error .other)

/-! ### the set builder (SetBuilder.Add/Finish, asString, asBytes, asArray, NewDict) -/

/-- asString: runes from min to max index, −1 where nothing was put, the last put wins -/
def asString (ts : List (Int × Int)) : Bucket :=
  let (lo, slots) := fill ts
  .str lo (slots.map (fun o => o.getD (-1)))

/-- asBytes: as asString but a gap is filled with 0 -/
def asBytes (ts : List (Int × Int)) : Bucket :=
  let (lo, slots) := fill ts
  .bytes lo (slots.map (fun o => (o.getD 0).toNat % 256))

def asArray (ts : List (Int × V)) : Bucket :=
  let (lo, slots) := fill ts
  .arr lo slots

def insertNew (v : V) (vs : List V) : List V := if v ∈ vs then vs else vs ++ [v]

/-- NewDict(true, …): a repeated key collects its values (as a set) -/
def dictPut : List (V × List V) → V → V → List (V × List V)
  | [], k, v => [(k, [v])]
  | (k', vs) :: r, k, v => if k' = k then (k', insertNew v vs) :: r else (k', vs) :: dictPut r k v

def newDict (es : List (V × V)) : List (V × List V) := es.foldl (fun m e => dictPut m e.1 e.2) []

def relNames (ps : List (String × V × V)) : List String := dedup (ps.map (·.1))

def relBuckets (ps : List (String × V × V)) : List Bucket :=
  (relNames ps).map (fun n =>
    -- relationBuilder: the heading in sorted name order, so `@` is the first column unless the
    -- other name sorts before it (`$a`)
    .rel (decide ("@" < n)) n
      (dedup ((ps.filter (fun p => p.1 = n)).map (fun p => if "@" < n then (p.2.1, p.2.2) else (p.2.2, p.2.1)))))

/-- SetBuilder.Add: one builder per bucket key (the order of Go's map iteration is immaterial) -/
def buckets (xs : List V) : List Bucket :=
  (if (charsOf xs).isEmpty then [] else [asString (charsOf xs)]) ++
  ((if (bytesOf xs).isEmpty then [] else [asBytes (bytesOf xs)]) ++
  ((if (itemsOf xs).isEmpty then [] else [asArray (itemsOf xs)]) ++
  ((if (entriesOf xs).isEmpty then [] else [.dict (newDict (entriesOf xs))]) ++
  (relBuckets (pairsOf xs) ++
  (if (othersOf xs).isEmpty then []
   else if dedup (othersOf xs) = [.tup []] then [.tt] else [.other (dedup (othersOf xs))])))))

/-- SetBuilder.Finish: no bucket ⇒ None, one ⇒ it, else a UnionSet -/
def ofBuckets : List Bucket → Coll
  | [] => .empty
  | [b] => .one b
  | bs => .union bs

def build (xs : List V) : Coll := ofBuckets (buckets xs)

/-- Relation.Join producing a two-attribute heading with `@`: the heading is left output ++ right
output, so `@` is the FIRST physical column iff it came from the left operand; a sugared second
attribute (@item, @byte, @value, @char) is rebuilt through the set builder instead.
`rows` = (key, value) pairs -/
def joinPairs (atLeft : Bool) (name : String) (rows : List (V × V)) : Coll :=
  if rows.isEmpty then .empty
  else if name = "@item" ∨ name = "@byte" ∨ name = "@value" ∨ name = "@char" then
    build (rows.map (fun r => V.pair name r.1 r.2))
  else .one (.rel atLeft name (dedup (rows.map (fun r => if atLeft then r else (r.2, r.1)))))

/-! ### `>>` and `>>>` (SeqArrowExpr.Eval) -/

def validChar : V → Option Int
  | .num n => if 0 ≤ n ∧ n < 2147483648 then some n else none
  | _ => none

def validByte : V → Option Nat
  | .num n => if 0 ≤ n ∧ n < 256 then some n.toNat else none
  | _ => none

/-- the String case (as repaired: a hole is kept; a negative result is rejected) -/
def strLoop (f : F) : Int → List Int → Res (List Int)
  | _, [] => .ok []
  | at_, r :: rs =>
    if r < 0 then
      (match strLoop f (at_ + 1) rs with | .ok out => .ok (r :: out) | .error e => .error e)
    else
      match f (.num at_) (.num r) with
      | .error e => .error e
      | .ok v =>
        match validChar v with
        | none => .error .other
        | some c =>
          match strLoop f (at_ + 1) rs with
          | .ok out => .ok (c :: out)
          | .error e => .error e

def bytesLoop (f : F) : Int → List Nat → Res (List Nat)
  | _, [] => .ok []
  | at_, b :: bs =>
    match f (.num at_) (.num (Int.ofNat b)) with
    | .error e => .error e
    | .ok v =>
      match validByte v with
      | none => .error .other
      | some c =>
        match bytesLoop f (at_ + 1) bs with
        | .ok out => .ok (c :: out)
        | .error e => .error e

def newOffsetString (rs : List Int) (off : Int) : Coll := if rs.isEmpty then .empty else .one (.str off rs)
def newOffsetBytes (bs : List Nat) (off : Int) : Coll := if bs.isEmpty then .empty else .one (.bytes off bs)
def newOffsetArray (off : Int) (vs : List (Option V)) : Coll :=
  let (off', vs') := trimFront off vs
  let vs'' := trimBack vs'
  if vs''.isEmpty then .empty else .one (.arr off' vs'')

/-- the Dict case: every entry in enumeration order -/
def dictLoop (f : F) : List (V × V) → Res (List (V × V))
  | [] => .ok []
  | (k, v) :: r =>
    match f k v with
    | .error e => .error e
    | .ok w =>
      match dictLoop f r with
      | .ok out => .ok ((k, w) :: out)
      | .error e => .error e

def dictEntries : List (V × List V) → List (V × V)
  | [] => []
  | (k, vs) :: r => vs.map (fun v => (k, v)) ++ dictEntries r

/-- the `case Set` loop (as repaired: a member must be exactly `(@: _, x: _)`; a char or byte
must stay a number) -/
def setLoop (f : F) : List V → Res (List V)
  | [] => .ok []
  | x :: r =>
    match asPair x with
    | none => .error .other
    | some (k, name, v) =>
      match f k v with
      | .error e => .error e
      | .ok w =>
        -- "NewTuple would panic on a char or byte that is not a number"
        if (name = "@char" ∨ name = "@byte") ∧ isNum w = false then .error .other
        else
          match setLoop f r with
          | .ok out => .ok (V.pair name k w :: out)
          | .error e => .error e

def seqArrow (f : F) : Coll → Res Coll
  | .one (.str off rs) =>
    (match strLoop f off rs with | .ok out => .ok (newOffsetString out off) | .error e => .error e)
  | .one (.bytes off bs) =>
    (match bytesLoop f off bs with | .ok out => .ok (newOffsetBytes out off) | .error e => .error e)
  | .one (.arr off vs) =>
    (match kmapM (fun i v => f (.num i) v) off vs with
     | .ok out => .ok (newOffsetArray off out) | .error e => .error e)
  | .one (.dict m) =>
    (match dictLoop f (dictEntries m) with
     | .ok out => .ok (if out.isEmpty then .empty else .one (.dict (newDict out)))
     | .error e => .error e)
  | c => (match setLoop f c.members with | .ok out => .ok (build out) | .error e => .error e)

/-! ### `++` (Concatenate) and `\` (OffsetExpr) -/

/-- `t.With("@", offset + n)` for every member of `b`; a member without a numeric `@` is an error -/
def shiftAll (n : Int) : List V → Res (List V)
  | [] => .ok []
  | x :: r =>
    match Spec.shiftMember n x with
    | none => .error .other
    | some y =>
      match shiftAll n r with
      | .ok ys => .ok (y :: ys)
      | .error e => .error e

/-- `String.holes`: NewOffsetString and asString (as repaired) set it to the number of negative runes -/
def holesOf (rs : List Int) : Nat := (rs.filter (fun r => decide (r < 0))).length

def dictCount : List (V × List V) → Nat
  | [] => 0
  | (_, vs) :: r => vs.length + dictCount r

/-- the `Count()` method of each set type -/
def bucketCount : Bucket → Nat
  | .str _ rs => rs.length - holesOf rs                          -- String.Count: len(s.s) - s.holes
  | .bytes _ bs => bs.length                                     -- Bytes.Count: len(b.b)
  | .arr _ vs => (vs.filter Option.isSome).length                -- Array.count (non-nil values)
  | .dict m => dictCount m                                       -- Dict.Count: every value of a multi-valued key
  | .rel _ _ rows => rows.length                                 -- Relation.Count: rows.Count()
  | .other xs => xs.length                                       -- GenericSet.Count
  | .tt => 1                                                     -- TrueSet.Count

def bucketsCount : List Bucket → Nat
  | [] => 0
  | b :: r => bucketCount b + bucketsCount r                     -- UnionSet.Count: the sum over the buckets

/-- `a.Count()` as `Concatenate` calls it -/
def count : Coll → Nat
  | .empty => 0
  | .true_ => 1
  | .one b => bucketCount b
  | .union bs => bucketsCount bs

def concat (a b : Coll) : Res Coll :=
  match shiftAll (Int.ofNat (count a)) b.members with
  | .error e => .error e
  | .ok ys => .ok (build (a.members ++ ys))

/-- OffsetExpr.Eval (as repaired: a non-integer offset is an error) -/
def offset (n : Arg) (c : Coll) : Res Coll :=
  match n with
  | .val (.num i) =>
    (match c with
     | .one (.arr off vs) => .ok (newOffsetArray (off + i) vs)
     | .one (.bytes off bs) => .ok (newOffsetBytes bs (off + i))
     | .one (.str off rs) => .ok (newOffsetString rs (off + i))
     | .empty => .ok .empty
     | _ => .error .other)
  | _ => .error .other

end Impl

end Arrai.C05
