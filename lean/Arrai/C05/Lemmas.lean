/-
  C05 helper lemmas: pairs, canonical sets, the generic keyed-sequence library
  (`List (Option α)` + offset), then strings / byte arrays / arrays as instances, dictionaries,
  relations, unions, the set builder.
-/
import Arrai.C05.Model

namespace Arrai.C05
open Arrai

/-! ## pairs -/

theorem asPair_pair (n : String) (k v : V) (hn : n ≠ "@") : asPair (V.pair n k v) = some (k, n, v) := by
  unfold V.pair
  by_cases h : "@" < n
  · simp [h, asPair]
  · simp [h, asPair, hn]

theorem asPair_eq {x k v : V} {n : String} (h : asPair x = some (k, n, v)) : x = V.pair n k v ∧ n ≠ "@" := by
  unfold asPair at h
  split at h
  · rename_i a x' b y'
    split at h
    · rename_i hc
      obtain ⟨ha, hb⟩ := hc
      simp only [Option.some.injEq, Prod.mk.injEq] at h
      obtain ⟨rfl, rfl, rfl⟩ := h
      subst ha
      refine ⟨by simp [V.pair, hb], ?_⟩
      intro e; subst e; exact String.lt_irrefl _ hb
    · split at h
      · rename_i hc
        obtain ⟨hb, ha, hlt⟩ := hc
        simp only [Option.some.injEq, Prod.mk.injEq] at h
        obtain ⟨rfl, rfl, rfl⟩ := h
        subst hb
        exact ⟨by simp [V.pair, hlt], ha⟩
      · simp at h
  · simp at h

theorem isPair_pair (n : String) (k v : V) (hn : n ≠ "@") : isPair (V.pair n k v) = true := by
  simp [isPair, asPair_pair n k v hn]

theorem valAt_pair (a : Arg) (n : String) (k v : V) (hn : n ≠ "@") :
    Spec.valAt a (V.pair n k v) = if Arg.val k = a then some v else none := by
  simp [Spec.valAt, asPair_pair n k v hn]

/-! ## canonical sets -/

theorem mk_congr {l₁ l₂ : List V} (h : ∀ x, x ∈ l₁ ↔ x ∈ l₂) : FinSet.mk l₁ = FinSet.mk l₂ :=
  FinSet.sorted_ext _ _ (FinSet.sorted_mk _) (FinSet.sorted_mk _)
    (fun x => by rw [FinSet.mem_mk, FinSet.mem_mk]; exact h x)

theorem exactlyOne_eq (l : List V) :
    (match l with
     | [] => (.error .noReturn : Res V)
     | [v] => .ok v
     | _ => .error .tooMany) = Spec.exactlyOne l := by
  cases l with
  | nil => rfl
  | cons a r => cases r <;> rfl

/-! ## the generic keyed-sequence library -/
namespace KSeq
variable {α β : Type}

theorem kget_nil (off i : Int) : kget off ([] : List (Option α)) i = none := by
  simp [kget]

theorem kget_cons_self (off : Int) (x : Option α) (r : List (Option α)) : kget off (x :: r) off = x := by
  simp [kget]

theorem kget_cons_ne (off i : Int) (x : Option α) (r : List (Option α)) (h : i ≠ off) :
    kget off (x :: r) i = kget (off + 1) r i := by
  unfold kget
  simp only [List.length_cons]
  by_cases h1 : 0 ≤ i - off ∧ i - off < ((r.length + 1 : Nat) : Int)
  · have h2 : 0 ≤ i - (off + 1) ∧ i - (off + 1) < (r.length : Int) := by omega
    rw [if_pos h1, if_pos h2]
    have : (i - off).toNat = (i - (off + 1)).toNat + 1 := by omega
    rw [this, List.getD_cons_succ]
  · have h2 : ¬ (0 ≤ i - (off + 1) ∧ i - (off + 1) < (r.length : Int)) := by omega
    rw [if_neg h1, if_neg h2]

theorem kden_ge {off i : Int} {v : α} {xs : List (Option α)} (h : (i, v) ∈ kden off xs) : off ≤ i := by
  induction xs generalizing off with
  | nil => simp [kden] at h
  | cons x r ih =>
    cases x with
    | none => have := ih (off := off + 1) (by simpa [kden] using h); omega
    | some a =>
      simp only [kden, List.mem_cons, Prod.mk.injEq] at h
      rcases h with ⟨rfl, _⟩ | h
      · omega
      · have := ih h; omega

/-- the lookup of the Go code finds exactly the pairs of the denotation -/
theorem kget_eq_some (off : Int) (xs : List (Option α)) (i : Int) (v : α) :
    kget off xs i = some v ↔ (i, v) ∈ kden off xs := by
  induction xs generalizing off with
  | nil => simp [kget_nil, kden]
  | cons x r ih =>
    by_cases h : i = off
    · subst h
      rw [kget_cons_self]
      cases x with
      | none =>
        simp only [kden]
        constructor
        · intro h; simp at h
        · intro h; have := kden_ge h; omega
      | some a =>
        simp only [kden, List.mem_cons, Prod.mk.injEq, true_and, Option.some.injEq]
        constructor
        · intro h; exact Or.inl h.symm
        · rintro (h | h)
          · exact h.symm
          · have := kden_ge h; omega
    · rw [kget_cons_ne off i x r h, ih]
      cases x with
      | none => simp [kden]
      | some a =>
        simp only [kden, List.mem_cons, Prod.mk.injEq]
        constructor
        · intro h; exact Or.inr h
        · rintro (⟨h', _⟩ | h')
          · exact absurd h' h
          · exact h'

/-- one value per index -/
theorem kden_functional {off : Int} {xs : List (Option α)} {i : Int} {v w : α}
    (h₁ : (i, v) ∈ kden off xs) (h₂ : (i, w) ∈ kden off xs) : v = w := by
  have a := (kget_eq_some off xs i v).2 h₁
  have b := (kget_eq_some off xs i w).2 h₂
  rw [a] at b
  exact Option.some.inj b

/-- shifting the offset shifts every index and nothing else -/
theorem kden_shift (off n : Int) (xs : List (Option α)) :
    kden (off + n) xs = (kden off xs).map (fun t => (t.1 + n, t.2)) := by
  induction xs generalizing off with
  | nil => rfl
  | cons x r ih =>
    have e : off + n + 1 = off + 1 + n := by omega
    cases x with
    | none => simp only [kden]; rw [e, ih]
    | some a => simp only [kden, List.map_cons]; rw [e, ih]

/-- the slot-wise loop is the pair-wise map: keys (offset, holes) are untouched -/
theorem pmapM_kden (f : Int → α → Res β) (off : Int) (xs : List (Option α)) :
    pmapM f (kden off xs) =
      (match kmapM f off xs with
       | .ok ys => .ok (kden off ys)
       | .error e => .error e) := by
  induction xs generalizing off with
  | nil => rfl
  | cons x r ih =>
    cases x with
    | none =>
      simp only [kden, kmapM]
      rw [ih]
      cases kmapM f (off + 1) r <;> rfl
    | some a =>
      simp only [kden, kmapM, pmapM]
      cases f off a with
      | error e => rfl
      | ok y =>
        simp only
        rw [ih]
        cases kmapM f (off + 1) r <;> rfl

theorem kden_trimFront (off : Int) (xs : List (Option α)) :
    kden (trimFront off xs).1 (trimFront off xs).2 = kden off xs := by
  induction xs generalizing off with
  | nil => rfl
  | cons x r ih =>
    cases x with
    | none => simp only [trimFront, kden]; exact ih (off + 1)
    | some a => rfl

theorem kden_trimBack (off : Int) (xs : List (Option α)) : kden off (trimBack xs) = kden off xs := by
  induction xs generalizing off with
  | nil => rfl
  | cons x r ih =>
    simp only [trimBack]
    cases h : trimBack r with
    | nil =>
      have := ih (off + 1)
      rw [h] at this
      cases x with
      | none => simp only [kden]; exact this
      | some a => simp only [kden]; rw [← this]; rfl
    | cons y r' =>
      have := ih (off + 1)
      rw [h] at this
      cases x with
      | none => simp only [kden]; exact this
      | some a => simp only [kden]; rw [this]

end KSeq

/-! ## calls -/
open KSeq

theorem mem_seqMembers (name : String) (off : Int) (slots : List (Option V)) (x : V) :
    x ∈ seqMembers name off slots ↔ ∃ i v, (i, v) ∈ kden off slots ∧ x = V.pair name (.num i) v := by
  simp only [seqMembers, List.mem_map, Prod.exists]
  constructor
  · rintro ⟨i, v, h, rfl⟩; exact ⟨i, v, h, rfl⟩
  · rintro ⟨i, v, h, rfl⟩; exact ⟨i, v, h, rfl⟩

theorem argInt_eq_some (a : Arg) (i : Int) : Impl.argInt a = some i ↔ a = .val (.num i) := by
  unfold Impl.argInt
  split
  · simp
  · rename_i h
    constructor
    · intro h'; simp at h'
    · intro e; subst e; exact absurd rfl (h i)

/-- String/Bytes/Array.CallAll deliver exactly the values paired with the argument -/
theorem seqCallAll_mem (name : String) (hn : name ≠ "@") (off : Int) (slots : List (Option V)) (a : Arg) (v : V) :
    v ∈ Impl.seqCallAll off slots a ↔ ∃ x ∈ seqMembers name off slots, Spec.valAt a x = some v := by
  unfold Impl.seqCallAll
  cases h : Impl.argInt a with
  | none =>
    simp only [List.not_mem_nil, false_iff]
    rintro ⟨x, hx, hv⟩
    obtain ⟨i, w, _, rfl⟩ := (mem_seqMembers name off slots x).1 hx
    rw [valAt_pair a name _ _ hn] at hv
    split at hv
    · rename_i e
      have := (argInt_eq_some a i).2 e.symm
      rw [h] at this; simp at this
    · simp at hv
  | some i =>
    have ha := (argInt_eq_some a i).1 h
    subst ha
    simp only
    constructor
    · intro hv
      cases hg : kget off slots i with
      | none => rw [hg] at hv; simp at hv
      | some w =>
        rw [hg] at hv
        simp only [List.mem_cons, List.not_mem_nil, or_false] at hv
        subst hv
        refine ⟨V.pair name (.num i) v, (mem_seqMembers _ _ _ _).2 ⟨i, v, (kget_eq_some _ _ _ _).1 hg, rfl⟩, ?_⟩
        simp [valAt_pair _ name _ _ hn]
    · rintro ⟨x, hx, hv⟩
      obtain ⟨j, w, hjw, rfl⟩ := (mem_seqMembers name off slots x).1 hx
      rw [valAt_pair _ name _ _ hn] at hv
      split at hv
      · rename_i e
        simp only [Arg.val.injEq, V.num.injEq] at e
        subst e
        simp only [Option.some.injEq] at hv
        subst hv
        rw [(kget_eq_some _ _ _ _).2 hjw]
        simp
      · simp at hv

theorem mem_dictMembers (m : List (V × List V)) (x : V) :
    x ∈ dictMembers m ↔ ∃ k vs, (k, vs) ∈ m ∧ ∃ v ∈ vs, x = V.pair "@value" k v := by
  induction m with
  | nil => simp [dictMembers]
  | cons e r ih =>
    obtain ⟨k0, vs0⟩ := e
    simp only [dictMembers, List.mem_append, List.mem_map, ih, List.mem_cons, Prod.mk.injEq]
    constructor
    · rintro (⟨v, hv, rfl⟩ | ⟨k, vs, hm, v, hv, rfl⟩)
      · exact ⟨k0, vs0, Or.inl ⟨rfl, rfl⟩, v, hv, rfl⟩
      · exact ⟨k, vs, Or.inr hm, v, hv, rfl⟩
    · rintro ⟨k, vs, (⟨rfl, rfl⟩ | hm), v, hv, rfl⟩
      · exact Or.inl ⟨v, hv, rfl⟩
      · exact Or.inr ⟨k, vs, hm, v, hv, rfl⟩

theorem dictGet_mem (m : List (V × List V)) (hnd : (m.map (·.1)).Nodup) (a : Arg) (v : V) :
    v ∈ (Impl.dictGet m a).getD [] ↔ ∃ k vs, (k, vs) ∈ m ∧ Arg.val k = a ∧ v ∈ vs := by
  induction m with
  | nil => simp [Impl.dictGet]
  | cons e r ih =>
    obtain ⟨k0, vs0⟩ := e
    simp only [List.map_cons, List.nodup_cons] at hnd
    unfold Impl.dictGet
    by_cases h : Arg.val k0 = a
    · rw [if_pos h]
      simp only [Option.getD_some, List.mem_cons, Prod.mk.injEq]
      constructor
      · intro hv; exact ⟨k0, vs0, Or.inl ⟨rfl, rfl⟩, h, hv⟩
      · rintro ⟨k, vs, (⟨rfl, rfl⟩ | hm), hk, hv⟩
        · exact hv
        · exfalso
          have : k = k0 := by rw [← h] at hk; exact Arg.val.inj hk
          subst this
          exact hnd.1 (List.mem_map.2 ⟨(k, vs), hm, rfl⟩)
    · rw [if_neg h, ih hnd.2]
      simp only [List.mem_cons, Prod.mk.injEq]
      constructor
      · rintro ⟨k, vs, hm, hk, hv⟩; exact ⟨k, vs, Or.inr hm, hk, hv⟩
      · rintro ⟨k, vs, (⟨rfl, rfl⟩ | hm), hk, hv⟩
        · exact absurd hk h
        · exact ⟨k, vs, hm, hk, hv⟩

theorem dictCallAll_mem (m : List (V × List V)) (hnd : (m.map (·.1)).Nodup) (a : Arg) (v : V) :
    v ∈ (Impl.dictGet m a).getD [] ↔ ∃ x ∈ dictMembers m, Spec.valAt a x = some v := by
  rw [dictGet_mem m hnd]
  constructor
  · rintro ⟨k, vs, hm, hk, hv⟩
    refine ⟨V.pair "@value" k v, (mem_dictMembers m _).2 ⟨k, vs, hm, v, hv, rfl⟩, ?_⟩
    rw [valAt_pair a "@value" k v (by decide)]; simp [hk]
  · rintro ⟨x, hx, hval⟩
    obtain ⟨k, vs, hm, w, hw, rfl⟩ := (mem_dictMembers m x).1 hx
    rw [valAt_pair a "@value" k w (by decide)] at hval
    split at hval
    · rename_i hk
      simp only [Option.some.injEq] at hval; subst hval
      exact ⟨k, vs, hm, hk, hw⟩
    · simp at hval

theorem relCallAll_mem (atFirst : Bool) (name : String) (hn : name ≠ "@") (rows : List (V × V)) (a : Arg) (v : V) :
    v ∈ Impl.relCallAll atFirst rows a ↔
      ∃ x ∈ rows.map (fun r => V.pair name (relRow atFirst r).1 (relRow atFirst r).2), Spec.valAt a x = some v := by
  induction rows with
  | nil => simp [Impl.relCallAll]
  | cons r rs ih =>
    unfold Impl.relCallAll
    simp only [List.map_cons, List.mem_cons, exists_eq_or_imp]
    rw [valAt_pair a name _ _ hn]
    by_cases h : Arg.val (relRow atFirst r).1 = a
    · rw [if_pos h, if_pos h]
      simp only [List.mem_cons, ih, Option.some.injEq]
      constructor
      · rintro (h' | h'); exact Or.inl h'.symm; exact Or.inr h'
      · rintro (h' | h'); exact Or.inl h'.symm; exact Or.inr h'
    · rw [if_neg h, if_neg h, ih]
      simp

/-- CallAll of every bucket kind that can hold pairs: the values paired with the argument -/
theorem callAll_mem (b : Bucket) (hwf : b.wf = true) (a : Arg) (vs : List V) (h : Impl.callAll b a = .ok vs) (v : V) :
    v ∈ vs ↔ ∃ x ∈ b.members, Spec.valAt a x = some v := by
  cases b with
  | str off rs =>
    simp only [Impl.callAll, Except.ok.injEq] at h; subst h
    exact seqCallAll_mem "@char" (by decide) _ _ _ _
  | bytes off bs =>
    simp only [Impl.callAll, Except.ok.injEq] at h; subst h
    exact seqCallAll_mem "@byte" (by decide) _ _ _ _
  | arr off xs =>
    simp only [Impl.callAll, Except.ok.injEq] at h; subst h
    exact seqCallAll_mem "@item" (by decide) _ _ _ _
  | dict m =>
    simp only [Impl.callAll, Except.ok.injEq] at h; subst h
    simp only [Bucket.wf, decide_eq_true_eq] at hwf
    exact dictCallAll_mem m hwf a v
  | rel atFirst name rows =>
    simp only [Impl.callAll, Except.ok.injEq] at h; subst h
    simp only [Bucket.wf, decide_eq_true_eq] at hwf
    exact relCallAll_mem atFirst name hwf rows a v
  | other xs => simp [Impl.callAll] at h
  | tt =>
    simp only [Impl.callAll, Except.ok.injEq] at h; subst h
    simp [Bucket.members, Spec.valAt, asPair]

theorem mem_bucketsMembers (bs : List Bucket) (x : V) : x ∈ bucketsMembers bs ↔ ∃ b ∈ bs, x ∈ b.members := by
  induction bs with
  | nil => simp [bucketsMembers]
  | cons b r ih => simp [bucketsMembers, ih]

theorem callAllBuckets_mem (bs : List Bucket) (hwf : bs.all Bucket.wf = true) (a : Arg) (vs : List V)
    (h : Impl.callAllBuckets bs a = .ok vs) (v : V) :
    v ∈ vs ↔ ∃ x ∈ bucketsMembers bs, Spec.valAt a x = some v := by
  induction bs generalizing vs with
  | nil =>
    simp only [Impl.callAllBuckets, Except.ok.injEq] at h; subst h
    simp [bucketsMembers]
  | cons b r ih =>
    simp only [List.all_cons, Bool.and_eq_true] at hwf
    unfold Impl.callAllBuckets at h
    cases h1 : Impl.callAll b a with
    | error e => rw [h1] at h; simp at h
    | ok ws =>
      rw [h1] at h
      cases h2 : Impl.callAllBuckets r a with
      | error e => rw [h2] at h; simp at h
      | ok us =>
        rw [h2] at h
        simp only [Except.ok.injEq] at h; subst h
        simp only [List.mem_append, bucketsMembers, callAll_mem b hwf.1 a ws h1 v, ih hwf.2 us h2]
        constructor
        · rintro (⟨x, hx, hv⟩ | ⟨x, hx, hv⟩)
          · exact ⟨x, Or.inl hx, hv⟩
          · exact ⟨x, Or.inr hx, hv⟩
        · rintro ⟨x, (hx | hx), hv⟩
          · exact Or.inl ⟨x, hx, hv⟩
          · exact Or.inr ⟨x, hx, hv⟩

theorem collCallAll_mem (c : Coll) (hwf : c.wf = true) (a : Arg) (vs : List V)
    (h : Impl.collCallAll c a = .ok vs) (v : V) :
    v ∈ vs ↔ ∃ x ∈ c.members, Spec.valAt a x = some v := by
  cases c with
  | empty => simp only [Impl.collCallAll, Except.ok.injEq] at h; subst h; simp [Coll.members]
  | true_ =>
    simp only [Impl.collCallAll, Except.ok.injEq] at h; subst h
    simp [Coll.members, Spec.valAt, asPair]
  | one b => exact callAll_mem b hwf a vs h v
  | union bs => exact callAllBuckets_mem bs hwf a vs h v

/-- an error of CallAll is of class `other` and means a foreign member -/
theorem callAll_error (b : Bucket) (hwf : b.wf = true) (a : Arg) (e : Err) (h : Impl.callAll b a = .error e) :
    e = .other ∧ ∃ x ∈ b.members, Spec.foreign x = true := by
  cases b with
  | other xs =>
    simp only [Bucket.wf, Bool.and_eq_true, Bool.not_eq_true', List.isEmpty_eq_false_iff, List.all_eq_true,
      List.any_eq_true, decide_eq_true_eq] at hwf
    obtain ⟨⟨_, hall⟩, x, hx, hne⟩ := hwf
    simp only [Impl.callAll, Except.error.injEq] at h
    exact ⟨h.symm, x, hx, by simp [Spec.foreign, hall x hx, hne]⟩
  | _ => simp [Impl.callAll] at h

theorem callAllBuckets_error (bs : List Bucket) (hwf : bs.all Bucket.wf = true) (a : Arg) (e : Err)
    (h : Impl.callAllBuckets bs a = .error e) : e = .other ∧ ∃ x ∈ bucketsMembers bs, Spec.foreign x = true := by
  induction bs with
  | nil => simp [Impl.callAllBuckets] at h
  | cons b r ih =>
    simp only [List.all_cons, Bool.and_eq_true] at hwf
    unfold Impl.callAllBuckets at h
    cases h1 : Impl.callAll b a with
    | error e' =>
      rw [h1] at h
      simp only [Except.error.injEq] at h; subst h
      obtain ⟨he, x, hx, hp⟩ := callAll_error b hwf.1 a e' h1
      exact ⟨he, x, by simp [bucketsMembers, hx], hp⟩
    | ok ws =>
      rw [h1] at h
      cases h2 : Impl.callAllBuckets r a with
      | error e' =>
        rw [h2] at h
        simp only [Except.error.injEq] at h; subst h
        obtain ⟨he, x, hx, hp⟩ := ih hwf.2 h2
        exact ⟨he, x, by simp [bucketsMembers, hx], hp⟩
      | ok us => rw [h2] at h; simp at h

theorem collCallAll_error (c : Coll) (hwf : c.wf = true) (a : Arg) (e : Err)
    (h : Impl.collCallAll c a = .error e) : e = .other ∧ ∃ x ∈ c.members, Spec.foreign x = true := by
  cases c with
  | empty => simp [Impl.collCallAll] at h
  | true_ => simp [Impl.collCallAll] at h
  | one b => exact callAll_error b hwf a e h
  | union bs => exact callAllBuckets_error bs hwf a e h

/-- where CallAll succeeds there is no foreign member -/
theorem callAll_ok_members (b : Bucket) (hwf : b.wf = true) (a : Arg) (vs : List V)
    (h : Impl.callAll b a = .ok vs) : ∀ x ∈ b.members, Spec.foreign x = false := by
  intro x hx
  cases b with
  | str off rs =>
    obtain ⟨i, v, _, rfl⟩ := (mem_seqMembers _ _ _ _).1 hx
    simp [Spec.foreign, isPair_pair "@char" _ _ (by decide)]
  | bytes off bs =>
    obtain ⟨i, v, _, rfl⟩ := (mem_seqMembers _ _ _ _).1 hx
    simp [Spec.foreign, isPair_pair "@byte" _ _ (by decide)]
  | arr off vs =>
    obtain ⟨i, v, _, rfl⟩ := (mem_seqMembers _ _ _ _).1 hx
    simp [Spec.foreign, isPair_pair "@item" _ _ (by decide)]
  | dict m =>
    obtain ⟨k, vs, _, v, _, rfl⟩ := (mem_dictMembers m x).1 hx
    simp [Spec.foreign, isPair_pair "@value" _ _ (by decide)]
  | rel atFirst name rows =>
    simp only [Bucket.wf, decide_eq_true_eq] at hwf
    simp only [Bucket.members, List.mem_map] at hx
    obtain ⟨r, _, rfl⟩ := hx
    simp [Spec.foreign, isPair_pair name _ _ hwf]
  | other xs => simp [Impl.callAll] at h
  | tt =>
    simp only [Bucket.members, List.mem_singleton] at hx
    subst hx; simp [Spec.foreign]

theorem callAllBuckets_ok_members (bs : List Bucket) (hwf : bs.all Bucket.wf = true) (a : Arg) (vs : List V)
    (h : Impl.callAllBuckets bs a = .ok vs) : ∀ x ∈ bucketsMembers bs, Spec.foreign x = false := by
  induction bs generalizing vs with
  | nil => simp [bucketsMembers]
  | cons b r ih =>
    simp only [List.all_cons, Bool.and_eq_true] at hwf
    unfold Impl.callAllBuckets at h
    cases h1 : Impl.callAll b a with
    | error e => rw [h1] at h; simp at h
    | ok ws =>
      rw [h1] at h
      cases h2 : Impl.callAllBuckets r a with
      | error e => rw [h2] at h; simp at h
      | ok us =>
        intro x hx
        simp only [bucketsMembers, List.mem_append] at hx
        rcases hx with hx | hx
        · exact callAll_ok_members b hwf.1 a ws h1 x hx
        · exact ih hwf.2 us h2 x hx

theorem collCallAll_ok_members (c : Coll) (hwf : c.wf = true) (a : Arg) (vs : List V)
    (h : Impl.collCallAll c a = .ok vs) : ∀ x ∈ c.members, Spec.foreign x = false := by
  cases c with
  | empty => simp [Coll.members]
  | true_ => intro x hx; simp only [Coll.members, List.mem_singleton] at hx; subst hx; simp [Spec.foreign]
  | one b => exact callAll_ok_members b hwf a vs h
  | union bs => exact callAllBuckets_ok_members bs hwf a vs h

theorem keyed_den (c : Coll) : Spec.keyed c.den = true ↔ ∀ x ∈ c.members, isPair x = true := by
  simp only [Coll.den, V.mkSet, Spec.keyed, List.all_eq_true, FinSet.mem_mk]

theorem setCall_of_ok (c : Coll) (a : Arg) (hwf : c.wf = true) (vs : List V)
    (h : Impl.collCallAll c a = .ok vs) : Impl.setCall c a = Spec.call c.den a := by
  unfold Impl.setCall
  rw [h]
  simp only [Spec.call, Coll.den, V.mkSet]
  congr 1
  apply mk_congr
  intro v
  rw [collCallAll_mem c hwf a vs h v, List.mem_filterMap]
  constructor
  · rintro ⟨x, hx, hv⟩; exact ⟨x, (FinSet.mem_mk _ _).2 hx, hv⟩
  · rintro ⟨x, hx, hv⟩; exact ⟨x, (FinSet.mem_mk _ _).1 hx, hv⟩

/-- SetCall on ANY well-formed representation is the specification's `callAny` on its meaning -/
theorem setCall_total (c : Coll) (a : Arg) (hwf : c.wf = true) : Impl.setCall c a = Spec.callAny c.den a := by
  cases h : Impl.collCallAll c a with
  | error e =>
    obtain ⟨rfl, x, hx, hf⟩ := collCallAll_error c hwf a e h
    have : (FinSet.mk c.members).any Spec.foreign = true :=
      List.any_eq_true.2 ⟨x, (FinSet.mem_mk _ _).2 hx, hf⟩
    simp [Impl.setCall, h, Spec.callAny, Coll.den, V.mkSet, this]
  | ok vs =>
    have hno := collCallAll_ok_members c hwf a vs h
    have : (FinSet.mk c.members).any Spec.foreign = false := by
      rw [List.any_eq_false]
      intro x hx
      simp [hno x ((FinSet.mem_mk _ _).1 hx)]
    rw [setCall_of_ok c a hwf vs h]
    simp [Spec.callAny, Coll.den, V.mkSet, this]

/-- SetCall on a keyed collection is the specification's `call` on its meaning -/
theorem setCall_eq (c : Coll) (a : Arg) (hwf : c.wf = true) (hk : Spec.keyed c.den = true) :
    Impl.setCall c a = Spec.call c.den a := by
  rw [keyed_den] at hk
  cases h : Impl.collCallAll c a with
  | error e =>
    obtain ⟨_, x, hx, hp⟩ := collCallAll_error c hwf a e h
    simp [Spec.foreign, hk x hx] at hp
  | ok vs => exact setCall_of_ok c a hwf vs h

/-! ## `>>` / `>>>` -/

theorem mapMembers_ok {f : F} {l ys : List V} (h : Spec.mapMembers m f l = .ok ys) (y : V) :
    y ∈ ys ↔ ∃ x ∈ l, Spec.mapMember m f x = .ok y := by
  induction l generalizing ys with
  | nil => simp only [Spec.mapMembers, Except.ok.injEq] at h; subst h; simp
  | cons x r ih =>
    unfold Spec.mapMembers at h
    cases h1 : Spec.mapMember m f x with
    | error e => rw [h1] at h; simp at h
    | ok z =>
      rw [h1] at h
      cases h2 : Spec.mapMembers m f r with
      | error e => rw [h2] at h; simp at h
      | ok zs =>
        rw [h2] at h
        simp only [Except.ok.injEq] at h; subst h
        simp only [List.mem_cons, ih h2, exists_eq_or_imp, h1, Except.ok.injEq]
        constructor
        · rintro (h | h); exact Or.inl h.symm; exact Or.inr h
        · rintro (h | h); exact Or.inl h.symm; exact Or.inr h

theorem mapMembers_error {f : F} {l : List V} :
    (∃ e, Spec.mapMembers m f l = .error e) ↔ ∃ x ∈ l, ∃ e, Spec.mapMember m f x = .error e := by
  induction l with
  | nil => simp [Spec.mapMembers]
  | cons x r ih =>
    unfold Spec.mapMembers
    cases h1 : Spec.mapMember m f x with
    | error e =>
      simp only [List.mem_cons, exists_eq_or_imp]
      exact ⟨fun _ => Or.inl ⟨e, h1⟩, fun _ => ⟨e, rfl⟩⟩
    | ok z =>
      simp only [List.mem_cons, exists_eq_or_imp, h1]
      cases h2 : Spec.mapMembers m f r with
      | error e =>
        have := ih.1 (by rw [h2]; exact ⟨e, rfl⟩)
        simp [this]
      | ok zs =>
        have : ¬ ∃ x ∈ r, ∃ e, Spec.mapMember m f x = .error e := by
          intro hh; obtain ⟨e, he⟩ := ih.2 hh; rw [h2] at he; simp at he
        simp [this]

/-- the canonical set of an outcome -/
def okSet : Res (List V) → Option V
  | .ok ys => some (V.mkSet ys)
  | .error _ => none

/-- transforming members does not depend on the order / multiplicity in which they are listed -/
theorem mapMembers_congr (f : F) {l₁ l₂ : List V} (h : ∀ x, x ∈ l₁ ↔ x ∈ l₂) :
    okSet (Spec.mapMembers m f l₁) = okSet (Spec.mapMembers m f l₂) := by
  cases h1 : Spec.mapMembers m f l₁ with
  | error e1 =>
    obtain ⟨x, hx, e, he⟩ := mapMembers_error.1 ⟨e1, h1⟩
    obtain ⟨e2, h2⟩ := mapMembers_error.2 ⟨x, (h x).1 hx, e, he⟩
    rw [h2]; rfl
  | ok ys1 =>
    cases h2 : Spec.mapMembers m f l₂ with
    | error e2 =>
      obtain ⟨x, hx, e, he⟩ := mapMembers_error.1 ⟨e2, h2⟩
      obtain ⟨e1, h1'⟩ := mapMembers_error.2 ⟨x, (h x).2 hx, e, he⟩
      rw [h1] at h1'; simp at h1'
    | ok ys2 =>
      simp only [okSet, V.mkSet, Option.some.injEq, V.set.injEq]
      apply mk_congr
      intro y
      rw [mapMembers_ok h1, mapMembers_ok h2]
      constructor
      · rintro ⟨x, hx, hy⟩; exact ⟨x, (h x).1 hx, hy⟩
      · rintro ⟨x, hx, hy⟩; exact ⟨x, (h x).2 hx, hy⟩

theorem mapVals_den (f : F) (c : Coll) :
    (Spec.mapVals f c.den).value? = okSet (Spec.mapMembers (Spec.modeOf c.den) f c.members) := by
  have := mapMembers_congr (m := Spec.modeOf c.den) f (l₁ := FinSet.mk c.members) (l₂ := c.members)
    (fun x => FinSet.mem_mk _ x)
  rw [← this]
  simp only [Coll.den, V.mkSet, Spec.mapVals]
  cases Spec.mapMembers (Spec.modeOf (V.set (FinSet.mk c.members))) f (FinSet.mk c.members) <;> rfl

/-- what `Impl.seqArrow` has to deliver for `seqarrow_refines` -/
def ArrowOk (m : Spec.Mode) (f : F) (c : Coll) (r : Res Coll) : Prop :=
  match r with
  | .ok c' => ∃ ys, Spec.mapMembers m f c.members = .ok ys ∧ ∀ y, y ∈ c'.members ↔ y ∈ ys
  | .error _ => ∃ e, Spec.mapMembers m f c.members = .error e

theorem mapMembers_nil_mode (m m' : Spec.Mode) (f : F) : Spec.mapMembers m f [] = Spec.mapMembers m' f [] := rfl

theorem arrowOk_refines {m : Spec.Mode} {f : F} {c : Coll} {r : Res Coll} (h : ArrowOk m f c r)
    (hm : c.members = [] ∨ Spec.modeOf c.den = m) :
    r.value?.map Coll.den = (Spec.mapVals f c.den).value? := by
  rw [mapVals_den]
  have hmode : Spec.mapMembers (Spec.modeOf c.den) f c.members = Spec.mapMembers m f c.members := by
    rcases hm with hm | hm
    · rw [hm]; rfl
    · rw [hm]
  rw [hmode]
  cases r with
  | error e => obtain ⟨e', he⟩ := h; rw [he]; rfl
  | ok c' =>
    obtain ⟨ys, hys, hmem⟩ := h
    rw [hys]
    simp only [Res.value?, Option.map_some, okSet, Coll.den, V.mkSet, Option.some.injEq, V.set.injEq]
    exact mk_congr hmem

/-- members of a sequence are transformed slot by slot -/
theorem mapMembers_pairs (f : F) (name : String) (g : Int → V → Res V)
    (hg : ∀ i v, Spec.mapMember m f (V.pair name (.num i) v) =
      (match g i v with | .ok w => .ok (V.pair name (.num i) w) | .error e => .error e))
    (l : List (Int × V)) :
    Spec.mapMembers m f (l.map (fun t => V.pair name (.num t.1) t.2)) =
      (match pmapM g l with
       | .ok ys => .ok (ys.map (fun t => V.pair name (.num t.1) t.2))
       | .error e => .error e) := by
  induction l with
  | nil => rfl
  | cons t r ih =>
    obtain ⟨i, v⟩ := t
    simp only [List.map_cons, Spec.mapMembers, pmapM, hg]
    cases g i v with
    | error e => rfl
    | ok w =>
      simp only
      rw [ih]
      cases pmapM g r <;> rfl

theorem mapMembers_seq (f : F) (name : String) (g : Int → V → Res V)
    (hg : ∀ i v, Spec.mapMember m f (V.pair name (.num i) v) =
      (match g i v with | .ok w => .ok (V.pair name (.num i) w) | .error e => .error e))
    (off : Int) (slots : List (Option V)) :
    Spec.mapMembers m f (seqMembers name off slots) =
      (match kmapM g off slots with
       | .ok ys => .ok (seqMembers name off ys)
       | .error e => .error e) := by
  unfold seqMembers
  rw [mapMembers_pairs f name g hg, pmapM_kden]
  cases kmapM g off slots <;> rfl

/-- the transformer the String case applies: `f`, then "must produce valid chars" -/
def charG (f : F) : Int → V → Res V := fun i v =>
  match f (.num i) v with
  | .ok w => (match Impl.validChar w with | some c => .ok (.num c) | none => .error .other)
  | .error e => .error e

def byteG (f : F) : Int → V → Res V := fun i v =>
  match f (.num i) v with
  | .ok w => (match Impl.validByte w with | some c => .ok (.num (Int.ofNat c)) | none => .error .other)
  | .error e => .error e

theorem validChar_some {w : V} {c : Int} (h : Impl.validChar w = some c) : w = .num c ∧ 0 ≤ c ∧ c < 2147483648 := by
  unfold Impl.validChar at h
  split at h
  · split at h
    · simp only [Option.some.injEq] at h; subst h; rename_i hc; exact ⟨rfl, hc.1, hc.2⟩
    · simp at h
  · simp at h

theorem validByte_some {w : V} {c : Nat} (h : Impl.validByte w = some c) :
    w = .num (Int.ofNat c) ∧ c < 256 := by
  unfold Impl.validByte at h
  split at h
  · split at h
    · rename_i n hc
      simp only [Option.some.injEq] at h; subst h
      refine ⟨?_, by omega⟩
      congr 1; simp only [Int.ofNat_eq_natCast]; omega
    · simp at h
  · simp at h

theorem mapMember_char (f : F) (i : Int) (v : V) :
    Spec.mapMember .string f (V.pair "@char" (.num i) v) =
      (match charG f i v with | .ok w => .ok (V.pair "@char" (.num i) w) | .error e => .error e) := by
  simp only [Spec.mapMember, asPair_pair "@char" _ _ (by decide), charG]
  cases f (.num i) v with
  | error e => rfl
  | ok w =>
    simp only [Spec.valueOk]
    cases hv : Impl.validChar w with
    | some c =>
      obtain ⟨rfl, h0, h1⟩ := validChar_some hv
      simp [h0, h1]
    | none =>
      cases w with
      | num n =>
        have : ¬ (0 ≤ n ∧ n < 2147483648) := by
          intro hc; simp [Impl.validChar, hc] at hv
        simp [this]
      | tup _ => simp
      | set _ => simp

theorem mapMember_byte (f : F) (i : Int) (v : V) :
    Spec.mapMember .bytes f (V.pair "@byte" (.num i) v) =
      (match byteG f i v with | .ok w => .ok (V.pair "@byte" (.num i) w) | .error e => .error e) := by
  simp only [Spec.mapMember, asPair_pair "@byte" _ _ (by decide), byteG]
  cases f (.num i) v with
  | error e => rfl
  | ok w =>
    simp only [Spec.valueOk]
    cases hv : Impl.validByte w with
    | some c =>
      obtain ⟨rfl, h1⟩ := validByte_some hv
      have : (0 : Int) ≤ (c : Int) ∧ (c : Int) < 256 := by omega
      simp [this]
    | none =>
      cases w with
      | num n =>
        have : ¬ (0 ≤ n ∧ n < 256) := by
          intro hc; simp [Impl.validByte, hc] at hv
        simp [this]
      | tup _ => simp
      | set _ => simp

theorem mapMember_item (f : F) (i : Int) (v : V) :
    Spec.mapMember .generic f (V.pair "@item" (.num i) v) =
      (match f (.num i) v with | .ok w => .ok (V.pair "@item" (.num i) w) | .error e => .error e) := by
  have h1 : ("@item" : String) ≠ "@char" := by decide
  have h2 : ("@item" : String) ≠ "@byte" := by decide
  simp only [Spec.mapMember, asPair_pair "@item" _ _ (by decide), Spec.valueOk, h1, h2, or_self, if_false]
  cases f (.num i) v with
  | error e => rfl
  | ok w => simp

theorem mapMember_other (f : F) (name : String) (hn : name ≠ "@") (h1 : name ≠ "@char") (h2 : name ≠ "@byte")
    (k v : V) :
    Spec.mapMember .generic f (V.pair name k v) =
      (match f k v with | .ok w => .ok (V.pair name k w) | .error e => .error e) := by
  simp only [Spec.mapMember, asPair_pair name _ _ hn, Spec.valueOk, h1, h2, or_self, if_false]
  cases f k v with
  | error e => rfl
  | ok w => simp

/-- the String loop is the generic slot loop with `charG` -/
theorem strLoop_kmapM (f : F) (off : Int) (rs : List Int) :
    kmapM (charG f) off (strSlots rs) =
      (match Impl.strLoop f off rs with
       | .ok out => .ok (strSlots out)
       | .error e => .error e) := by
  induction rs generalizing off with
  | nil => rfl
  | cons r rs ih =>
    unfold Impl.strLoop
    by_cases hr : r < 0
    · simp only [strSlots, List.map_cons, hr, if_true, kmapM]
      have := ih (off + 1)
      simp only [strSlots] at this
      rw [this]
      cases Impl.strLoop f (off + 1) rs with
      | error e => rfl
      | ok out => simp [hr]
    · simp only [strSlots, List.map_cons, hr, if_false, kmapM, charG]
      cases f (.num off) (.num r) with
      | error e => rfl
      | ok w =>
        simp only
        cases hv : Impl.validChar w with
        | none => rfl
        | some c =>
          obtain ⟨_, h0, _⟩ := validChar_some hv
          simp only
          have := ih (off + 1)
          simp only [strSlots] at this
          rw [this]
          cases Impl.strLoop f (off + 1) rs with
          | error e => rfl
          | ok out =>
            have : ¬ c < 0 := by omega
            simp [this]

theorem bytesLoop_kmapM (f : F) (off : Int) (bs : List Nat) :
    kmapM (byteG f) off (byteSlots bs) =
      (match Impl.bytesLoop f off bs with
       | .ok out => .ok (byteSlots out)
       | .error e => .error e) := by
  induction bs generalizing off with
  | nil => rfl
  | cons b bs ih =>
    unfold Impl.bytesLoop
    simp only [byteSlots, List.map_cons, kmapM, byteG]
    cases f (.num off) (.num (Int.ofNat b)) with
    | error e => rfl
    | ok w =>
      simp only
      cases hv : Impl.validByte w with
      | none => rfl
      | some c =>
        simp only
        have := ih (off + 1)
        simp only [byteSlots] at this
        rw [this]
        cases Impl.bytesLoop f (off + 1) bs <;> rfl

theorem members_newOffsetString (rs : List Int) (off : Int) :
    (Impl.newOffsetString rs off).members = seqMembers "@char" off (strSlots rs) := by
  unfold Impl.newOffsetString
  cases rs <;> rfl

theorem members_newOffsetBytes (bs : List Nat) (off : Int) :
    (Impl.newOffsetBytes bs off).members = seqMembers "@byte" off (byteSlots bs) := by
  unfold Impl.newOffsetBytes
  cases bs <;> rfl

theorem members_newOffsetArray (off : Int) (vs : List (Option V)) :
    (Impl.newOffsetArray off vs).members = seqMembers "@item" off vs := by
  unfold Impl.newOffsetArray
  simp only
  have h1 := kden_trimFront off vs
  have h2 := kden_trimBack (trimFront off vs).1 (trimFront off vs).2
  split
  · rename_i he
    simp only [List.isEmpty_iff] at he
    rw [he] at h2
    simp only [Coll.members, seqMembers, ← h1, ← h2]
    rfl
  · simp only [Coll.members, Bucket.members, seqMembers, ← h1, ← h2]

theorem dictMembers_eq (m : List (V × List V)) :
    dictMembers m = (Impl.dictEntries m).map (fun e => V.pair "@value" e.1 e.2) := by
  induction m with
  | nil => rfl
  | cons e r ih =>
    obtain ⟨k, vs⟩ := e
    simp [dictMembers, Impl.dictEntries, ih, Function.comp_def]

theorem mapMembers_entries (f : F) (es : List (V × V)) :
    Spec.mapMembers .generic f (es.map (fun e => V.pair "@value" e.1 e.2)) =
      (match Impl.dictLoop f es with
       | .ok out => .ok (out.map (fun e => V.pair "@value" e.1 e.2))
       | .error e => .error e) := by
  induction es with
  | nil => rfl
  | cons e r ih =>
    obtain ⟨k, v⟩ := e
    simp only [List.map_cons, Spec.mapMembers, Impl.dictLoop,
      mapMember_other f "@value" (by decide) (by decide) (by decide)]
    cases f k v with
    | error e => rfl
    | ok w =>
      simp only
      rw [ih]
      cases Impl.dictLoop f r <;> rfl

theorem mem_dictMembers_dictPut (m : List (V × List V)) (k v x : V) :
    x ∈ dictMembers (Impl.dictPut m k v) ↔ x ∈ dictMembers m ∨ x = V.pair "@value" k v := by
  induction m with
  | nil => simp [Impl.dictPut, dictMembers]
  | cons e r ih =>
    obtain ⟨k', vs⟩ := e
    unfold Impl.dictPut
    by_cases h : k' = k
    · subst h
      simp only [if_true, dictMembers, List.mem_append, List.mem_map, Impl.insertNew]
      by_cases hv : v ∈ vs
      · simp only [hv, if_true]
        constructor
        · intro h; exact Or.inl h
        · rintro (h | h)
          · exact h
          · exact Or.inl ⟨v, hv, h.symm⟩
      · simp only [hv, if_false, List.mem_append, List.mem_singleton]
        constructor
        · rintro (⟨a, (ha | ha), rfl⟩ | h)
          · exact Or.inl (Or.inl ⟨a, ha, rfl⟩)
          · subst ha; exact Or.inr rfl
          · exact Or.inl (Or.inr h)
        · rintro ((⟨a, ha, rfl⟩ | h) | h)
          · exact Or.inl ⟨a, Or.inl ha, rfl⟩
          · exact Or.inr h
          · exact Or.inl ⟨v, Or.inr rfl, h.symm⟩
    · simp only [h, if_false, dictMembers, List.mem_append, ih]
      constructor
      · rintro (h | h | h)
        · exact Or.inl (Or.inl h)
        · exact Or.inl (Or.inr h)
        · exact Or.inr h
      · rintro ((h | h) | h)
        · exact Or.inl h
        · exact Or.inr (Or.inl h)
        · exact Or.inr (Or.inr h)

theorem mem_dictMembers_foldl (es : List (V × V)) (m : List (V × List V)) (x : V) :
    x ∈ dictMembers (es.foldl (fun m e => Impl.dictPut m e.1 e.2) m) ↔
      x ∈ dictMembers m ∨ x ∈ es.map (fun e => V.pair "@value" e.1 e.2) := by
  induction es generalizing m with
  | nil => simp
  | cons e r ih =>
    simp only [List.foldl_cons, ih, mem_dictMembers_dictPut, List.map_cons, List.mem_cons]
    constructor
    · rintro ((h | h) | h)
      · exact Or.inl h
      · exact Or.inr (Or.inl h)
      · exact Or.inr (Or.inr h)
    · rintro (h | h | h)
      · exact Or.inl (Or.inl h)
      · exact Or.inl (Or.inr h)
      · exact Or.inr h

theorem mem_dictMembers_newDict (es : List (V × V)) (x : V) :
    x ∈ dictMembers (Impl.newDict es) ↔ x ∈ es.map (fun e => V.pair "@value" e.1 e.2) := by
  unfold Impl.newDict
  rw [mem_dictMembers_foldl]
  simp [dictMembers]

/-- `>>` on the four sugared representations -/
theorem arrowOk_str (f : F) (off : Int) (rs : List Int) :
    ArrowOk .string f (.one (.str off rs)) (Impl.seqArrow f (.one (.str off rs))) := by
  have h := mapMembers_seq (m := .string) f "@char" (charG f) (mapMember_char f) off (strSlots rs)
  rw [strLoop_kmapM] at h
  simp only [Impl.seqArrow]
  cases hl : Impl.strLoop f off rs with
  | error e => rw [hl] at h; exact ⟨e, h⟩
  | ok out =>
    rw [hl] at h
    exact ⟨_, h, fun y => by rw [members_newOffsetString]⟩

theorem arrowOk_bytes (f : F) (off : Int) (bs : List Nat) :
    ArrowOk .bytes f (.one (.bytes off bs)) (Impl.seqArrow f (.one (.bytes off bs))) := by
  have h := mapMembers_seq (m := .bytes) f "@byte" (byteG f) (mapMember_byte f) off (byteSlots bs)
  rw [bytesLoop_kmapM] at h
  simp only [Impl.seqArrow]
  cases hl : Impl.bytesLoop f off bs with
  | error e => rw [hl] at h; exact ⟨e, h⟩
  | ok out =>
    rw [hl] at h
    exact ⟨_, h, fun y => by rw [members_newOffsetBytes]⟩

theorem arrowOk_arr (f : F) (off : Int) (vs : List (Option V)) :
    ArrowOk .generic f (.one (.arr off vs)) (Impl.seqArrow f (.one (.arr off vs))) := by
  have h := mapMembers_seq (m := .generic) f "@item" (fun i v => f (.num i) v) (mapMember_item f) off vs
  simp only [Impl.seqArrow]
  cases hl : kmapM (fun i v => f (.num i) v) off vs with
  | error e => rw [hl] at h; exact ⟨e, h⟩
  | ok out =>
    rw [hl] at h
    exact ⟨_, h, fun y => by rw [members_newOffsetArray]⟩

theorem arrowOk_dict (f : F) (m : List (V × List V)) :
    ArrowOk .generic f (.one (.dict m)) (Impl.seqArrow f (.one (.dict m))) := by
  have h := mapMembers_entries f (Impl.dictEntries m)
  rw [← dictMembers_eq] at h
  simp only [Impl.seqArrow]
  cases hl : Impl.dictLoop f (Impl.dictEntries m) with
  | error e => rw [hl] at h; exact ⟨e, h⟩
  | ok out =>
    rw [hl] at h
    refine ⟨_, h, fun y => ?_⟩
    split
    · rename_i he
      simp only [List.isEmpty_iff] at he
      subst he; simp [Coll.members]
    · simp only [Coll.members, Bucket.members, mem_dictMembers_newDict]

/-! ## which mode a representation's meaning is in -/

theorem mk_isEmpty (l : List V) : (FinSet.mk l).isEmpty = l.isEmpty := by
  cases l with
  | nil => rfl
  | cons x r =>
    have : x ∈ FinSet.mk (x :: r) := (FinSet.mem_mk _ _).2 (by simp)
    cases h : FinSet.mk (x :: r) with
    | nil => rw [h] at this; simp at this
    | cons a b => rfl

theorem mk_all (l : List V) (p : V → Bool) : (FinSet.mk l).all p = l.all p := by
  rw [Bool.eq_iff_iff]
  simp only [List.all_eq_true, FinSet.mem_mk]

theorem isStringV_den (c : Coll) :
    Spec.isStringV c.den = (!c.members.isEmpty && c.members.all Spec.charMember) := by
  simp only [Coll.den, V.mkSet, Spec.isStringV, mk_isEmpty, mk_all]

theorem isBytesV_den (c : Coll) :
    Spec.isBytesV c.den = (!c.members.isEmpty && c.members.all Spec.byteMember) := by
  simp only [Coll.den, V.mkSet, Spec.isBytesV, mk_isEmpty, mk_all]

theorem charMember_pair (name : String) (hn : name ≠ "@") (k v : V) :
    Spec.charMember (V.pair name k v) =
      (match k, v with | .num _, .num c => decide (name = "@char") && decide (0 ≤ c) | _, _ => false) := by
  simp only [Spec.charMember, asPair_pair name k v hn]
  cases k <;> cases v <;> simp

theorem byteMember_pair (name : String) (hn : name ≠ "@") (k v : V) :
    Spec.byteMember (V.pair name k v) =
      (match k, v with | .num _, .num b => decide (name = "@byte") && decide (0 ≤ b ∧ b < 256) | _, _ => false) := by
  simp only [Spec.byteMember, asPair_pair name k v hn]
  cases k <;> cases v <;> simp

theorem mem_kden_strSlots {off i : Int} {v : V} {rs : List Int} (h : (i, v) ∈ kden off (strSlots rs)) :
    ∃ r, 0 ≤ r ∧ v = .num r := by
  induction rs generalizing off with
  | nil => simp [strSlots, kden] at h
  | cons r rs ih =>
    simp only [strSlots, List.map_cons] at h
    by_cases hr : r < 0
    · simp only [hr, if_true, kden] at h; exact ih h
    · simp only [hr, if_false, kden, List.mem_cons, Prod.mk.injEq] at h
      rcases h with ⟨_, rfl⟩ | h
      · exact ⟨r, by omega, rfl⟩
      · exact ih h

theorem mem_kden_byteSlots {off i : Int} {v : V} {bs : List Nat} (h : (i, v) ∈ kden off (byteSlots bs)) :
    ∃ b ∈ bs, v = .num (Int.ofNat b) := by
  induction bs generalizing off with
  | nil => simp [byteSlots, kden] at h
  | cons b bs ih =>
    simp only [byteSlots, List.map_cons, kden, List.mem_cons, Prod.mk.injEq] at h
    rcases h with ⟨_, rfl⟩ | h
    · exact ⟨b, by simp, rfl⟩
    · obtain ⟨b', hb, e⟩ := ih h; exact ⟨b', by simp [hb], e⟩

theorem modeOf_str (off : Int) (rs : List Int) (hne : (Coll.one (.str off rs)).members ≠ []) :
    Spec.modeOf (Coll.one (.str off rs)).den = .string := by
  have : Spec.isStringV (Coll.one (.str off rs)).den = true := by
    rw [isStringV_den]
    simp only [Bool.and_eq_true, Bool.not_eq_true', List.isEmpty_eq_false_iff, List.all_eq_true]
    refine ⟨hne, fun x hx => ?_⟩
    obtain ⟨i, v, hiv, rfl⟩ := (mem_seqMembers _ _ _ _).1 hx
    obtain ⟨r, hr, rfl⟩ := mem_kden_strSlots hiv
    simp [charMember_pair "@char" (by decide), hr]
  simp [Spec.modeOf, this]

theorem modeOf_bytes (off : Int) (bs : List Nat) (hwf : (Bucket.bytes off bs).wf = true)
    (hne : (Coll.one (.bytes off bs)).members ≠ []) :
    Spec.modeOf (Coll.one (.bytes off bs)).den = .bytes := by
  simp only [Bucket.wf, List.all_eq_true, decide_eq_true_eq] at hwf
  obtain ⟨x0, hx0⟩ := List.exists_mem_of_ne_nil _ hne
  have hs : Spec.isStringV (Coll.one (.bytes off bs)).den = false := by
    rw [isStringV_den]
    simp only [Bool.and_eq_false_iff, Bool.not_eq_false', List.all_eq_false]
    refine Or.inr ⟨x0, hx0, ?_⟩
    obtain ⟨i, v, hiv, rfl⟩ := (mem_seqMembers _ _ _ _).1 hx0
    obtain ⟨b, _, rfl⟩ := mem_kden_byteSlots hiv
    simp [charMember_pair "@byte" (by decide)]
  have hb : Spec.isBytesV (Coll.one (.bytes off bs)).den = true := by
    rw [isBytesV_den]
    simp only [Bool.and_eq_true, Bool.not_eq_true', List.isEmpty_eq_false_iff, List.all_eq_true]
    refine ⟨hne, fun x hx => ?_⟩
    obtain ⟨i, v, hiv, rfl⟩ := (mem_seqMembers _ _ _ _).1 hx
    obtain ⟨b, hb, rfl⟩ := mem_kden_byteSlots hiv
    have := hwf b hb
    simp only [byteMember_pair "@byte" (by decide), Int.ofNat_eq_natCast, decide_true, Bool.true_and,
      decide_eq_true_eq]
    omega
  simp [Spec.modeOf, hs, hb]

/-- a collection with a member that is neither a char member nor a byte member is in generic mode -/
theorem modeOf_generic (c : Coll) (x : V) (hx : x ∈ c.members) (h1 : Spec.charMember x = false)
    (h2 : Spec.byteMember x = false) : Spec.modeOf c.den = .generic := by
  have hs : Spec.isStringV c.den = false := by
    rw [isStringV_den]
    simp only [Bool.and_eq_false_iff, Bool.not_eq_false', List.all_eq_false]
    exact Or.inr ⟨x, hx, by simp [h1]⟩
  have hb : Spec.isBytesV c.den = false := by
    rw [isBytesV_den]
    simp only [Bool.and_eq_false_iff, Bool.not_eq_false', List.all_eq_false]
    exact Or.inr ⟨x, hx, by simp [h2]⟩
  simp [Spec.modeOf, hs, hb]

theorem modeOf_arr (off : Int) (vs : List (Option V)) (hne : (Coll.one (.arr off vs)).members ≠ []) :
    Spec.modeOf (Coll.one (.arr off vs)).den = .generic := by
  obtain ⟨x0, hx0⟩ := List.exists_mem_of_ne_nil _ hne
  obtain ⟨i, v, _, rfl⟩ := (mem_seqMembers _ _ _ _).1 hx0
  apply modeOf_generic _ _ hx0
  · rw [charMember_pair "@item" (by decide)]; cases v <;> simp
  · rw [byteMember_pair "@item" (by decide)]; cases v <;> simp

theorem modeOf_dict (m : List (V × List V)) (hne : (Coll.one (.dict m)).members ≠ []) :
    Spec.modeOf (Coll.one (.dict m)).den = .generic := by
  obtain ⟨x0, hx0⟩ := List.exists_mem_of_ne_nil _ hne
  obtain ⟨k, vs, _, v, _, rfl⟩ := (mem_dictMembers m x0).1 hx0
  apply modeOf_generic _ _ hx0
  · rw [charMember_pair "@value" (by decide)]; cases k <;> cases v <;> simp
  · rw [byteMember_pair "@value" (by decide)]; cases k <;> cases v <;> simp

/-! ## offsets -/

theorem shiftMember_pair (name : String) (hn : name ≠ "@") (j n : Int) (v : V) :
    Spec.shiftMember n (V.pair name (.num j) v) = some (V.pair name (.num (j + n)) v) := by
  have hn' : ("@" == name) = false := by simp [Ne.symm hn]
  unfold V.pair
  by_cases h : "@" < name
  · simp [h, Spec.shiftMember, List.lookup, hn]
  · simp [h, Spec.shiftMember, List.lookup, hn, hn']

theorem shiftMembers_pairs (name : String) (hn : name ≠ "@") (n : Int) (l : List (Int × V)) :
    Spec.shiftMembers n (l.map (fun t => V.pair name (.num t.1) t.2)) =
      some ((l.map (fun t => (t.1 + n, t.2))).map (fun t => V.pair name (.num t.1) t.2)) := by
  induction l with
  | nil => rfl
  | cons t r ih =>
    simp only [List.map_cons, Spec.shiftMembers, shiftMember_pair name hn, ih]

theorem shiftMembers_seq (name : String) (hn : name ≠ "@") (n off : Int) (slots : List (Option V)) :
    Spec.shiftMembers n (seqMembers name off slots) = some (seqMembers name (off + n) slots) := by
  unfold seqMembers
  rw [shiftMembers_pairs name hn, kden_shift]

theorem shiftMembers_some {n : Int} {l ys : List V} (h : Spec.shiftMembers n l = some ys) (y : V) :
    y ∈ ys ↔ ∃ x ∈ l, Spec.shiftMember n x = some y := by
  induction l generalizing ys with
  | nil => simp only [Spec.shiftMembers, Option.some.injEq] at h; subst h; simp
  | cons x r ih =>
    unfold Spec.shiftMembers at h
    cases h1 : Spec.shiftMember n x with
    | none => rw [h1] at h; simp at h
    | some z =>
      cases h2 : Spec.shiftMembers n r with
      | none => rw [h1, h2] at h; simp at h
      | some zs =>
        rw [h1, h2] at h
        simp only [Option.some.injEq] at h; subst h
        simp only [List.mem_cons, ih h2, exists_eq_or_imp, h1, Option.some.injEq]
        constructor
        · rintro (h | h); exact Or.inl h.symm; exact Or.inr h
        · rintro (h | h); exact Or.inl h.symm; exact Or.inr h

theorem shiftMembers_none {n : Int} {l : List V} :
    Spec.shiftMembers n l = none ↔ ∃ x ∈ l, Spec.shiftMember n x = none := by
  induction l with
  | nil => simp [Spec.shiftMembers]
  | cons x r ih =>
    unfold Spec.shiftMembers
    cases h1 : Spec.shiftMember n x with
    | none => simp [h1]
    | some z =>
      cases h2 : Spec.shiftMembers n r with
      | none =>
        have := ih.1 h2
        simp [h1, this]
      | some zs =>
        have : ¬ ∃ x ∈ r, Spec.shiftMember n x = none := by
          intro hh; have := ih.2 hh; rw [h2] at this; simp at this
        simp only [List.mem_cons, exists_eq_or_imp, h1]
        simp [this]

theorem shiftMembers_congr (n : Int) {l₁ l₂ : List V} (h : ∀ x, x ∈ l₁ ↔ x ∈ l₂) :
    (Spec.shiftMembers n l₁).map V.mkSet = (Spec.shiftMembers n l₂).map V.mkSet := by
  cases h1 : Spec.shiftMembers n l₁ with
  | none =>
    obtain ⟨x, hx, he⟩ := shiftMembers_none.1 h1
    rw [shiftMembers_none.2 ⟨x, (h x).1 hx, he⟩]
  | some ys1 =>
    cases h2 : Spec.shiftMembers n l₂ with
    | none =>
      obtain ⟨x, hx, he⟩ := shiftMembers_none.1 h2
      rw [shiftMembers_none.2 ⟨x, (h x).2 hx, he⟩] at h1; simp at h1
    | some ys2 =>
      simp only [Option.map_some, V.mkSet, Option.some.injEq, V.set.injEq]
      apply mk_congr
      intro y
      rw [shiftMembers_some h1, shiftMembers_some h2]
      constructor
      · rintro ⟨x, hx, hy⟩; exact ⟨x, (h x).1 hx, hy⟩
      · rintro ⟨x, hx, hy⟩; exact ⟨x, (h x).2 hx, hy⟩

theorem shift_den (n : Int) (c : Coll) :
    Spec.shift n c.den = (Spec.shiftMembers n c.members).map V.mkSet := by
  rw [← shiftMembers_congr n (l₁ := FinSet.mk c.members) (l₂ := c.members) (fun x => FinSet.mem_mk _ x)]
  rfl

/-- a sequence representation seen as name + offset + slots -/
def seqView : Coll → Option (String × Int × List (Option V))
  | .empty => some ("@item", 0, [])
  | .one (.str off rs) => some ("@char", off, strSlots rs)
  | .one (.bytes off bs) => some ("@byte", off, byteSlots bs)
  | .one (.arr off vs) => some ("@item", off, vs)
  | _ => none

theorem seqView_isSeq {c : Coll} (h : c.isSeq = true) :
    ∃ name off slots, seqView c = some (name, off, slots) ∧ name ≠ "@" ∧ c.members = seqMembers name off slots := by
  cases c with
  | empty => exact ⟨"@item", 0, [], rfl, by decide, rfl⟩
  | true_ => simp [Coll.isSeq] at h
  | union bs => simp [Coll.isSeq] at h
  | one b =>
    cases b with
    | str off rs => exact ⟨"@char", off, strSlots rs, rfl, by decide, rfl⟩
    | bytes off bs => exact ⟨"@byte", off, byteSlots bs, rfl, by decide, rfl⟩
    | arr off vs => exact ⟨"@item", off, vs, rfl, by decide, rfl⟩
    | _ => simp [Coll.isSeq] at h

theorem isSeq_newOffsetString (rs : List Int) (off : Int) : (Impl.newOffsetString rs off).isSeq = true := by
  unfold Impl.newOffsetString; split <;> rfl
theorem isSeq_newOffsetBytes (bs : List Nat) (off : Int) : (Impl.newOffsetBytes bs off).isSeq = true := by
  unfold Impl.newOffsetBytes; split <;> rfl
theorem isSeq_newOffsetArray (off : Int) (vs : List (Option V)) : (Impl.newOffsetArray off vs).isSeq = true := by
  unfold Impl.newOffsetArray; simp only; split <;> rfl

/-- OffsetExpr on a sequence: same slots, offset moved by `i` -/
theorem offset_members {c : Coll} {name : String} {off : Int} {slots : List (Option V)}
    (hv : seqView c = some (name, off, slots)) (i : Int) :
    ∃ r, Impl.offset (.val (.num i)) c = .ok r ∧ r.isSeq = true ∧ r.members = seqMembers name (off + i) slots := by
  cases c with
  | empty =>
    simp only [seqView, Option.some.injEq, Prod.mk.injEq] at hv
    obtain ⟨rfl, rfl, rfl⟩ := hv
    exact ⟨.empty, rfl, rfl, rfl⟩
  | true_ => simp [seqView] at hv
  | union bs => simp [seqView] at hv
  | one b =>
    cases b with
    | str o rs =>
      simp only [seqView, Option.some.injEq, Prod.mk.injEq] at hv
      obtain ⟨rfl, rfl, rfl⟩ := hv
      exact ⟨_, rfl, isSeq_newOffsetString _ _, members_newOffsetString _ _⟩
    | bytes o bs =>
      simp only [seqView, Option.some.injEq, Prod.mk.injEq] at hv
      obtain ⟨rfl, rfl, rfl⟩ := hv
      exact ⟨_, rfl, isSeq_newOffsetBytes _ _, members_newOffsetBytes _ _⟩
    | arr o vs =>
      simp only [seqView, Option.some.injEq, Prod.mk.injEq] at hv
      obtain ⟨rfl, rfl, rfl⟩ := hv
      exact ⟨_, rfl, isSeq_newOffsetArray _ _, members_newOffsetArray _ _⟩
    | _ => simp [seqView] at hv

/-! ## the set builder: asString / asBytes / asArray fill the slots exactly -/
namespace KSeq
variable {α β : Type}

/-- one value per index -/
def Functional (ts : List (Int × α)) : Prop := ∀ i v w, (i, v) ∈ ts → (i, w) ∈ ts → v = w

theorem functional_tail {t : Int × α} {r : List (Int × α)} (h : Functional (t :: r)) : Functional r :=
  fun i v w hv hw => h i v w (List.mem_cons_of_mem _ hv) (List.mem_cons_of_mem _ hw)

theorem foldl_slot (ts : List (Int × α)) (hf : Functional ts) (i : Int) (acc : Option α) (v : α) :
    ts.foldl (fun acc t => if t.1 = i then some t.2 else acc) acc = some v ↔
      (i, v) ∈ ts ∨ ((∀ w, (i, w) ∉ ts) ∧ acc = some v) := by
  induction ts generalizing acc with
  | nil => simp
  | cons t r ih =>
    obtain ⟨j, x⟩ := t
    simp only [List.foldl_cons]
    rw [ih (functional_tail hf)]
    by_cases hj : j = i
    · subst hj
      simp only [if_true, List.mem_cons, Prod.mk.injEq, true_and, Option.some.injEq]
      constructor
      · rintro (h | ⟨_, h⟩)
        · exact Or.inl (Or.inr h)
        · exact Or.inl (Or.inl h.symm)
      · rintro ((h | h) | ⟨h, _⟩)
        · subst h
          by_cases hex : ∃ w, (j, w) ∈ r
          · obtain ⟨w, hw⟩ := hex
            have : v = w := hf j v w (by simp) (List.mem_cons_of_mem _ hw)
            subst this; exact Or.inl hw
          · exact Or.inr ⟨fun w hw => hex ⟨w, hw⟩, rfl⟩
        · exact Or.inl h
        · exact absurd (Or.inl rfl) (h x)
    · simp only [hj, if_false, List.mem_cons, Prod.mk.injEq]
      constructor
      · rintro (h | ⟨h1, h2⟩)
        · exact Or.inl (Or.inr h)
        · refine Or.inr ⟨fun w hw => ?_, h2⟩
          rcases hw with ⟨e, _⟩ | hw
          · exact hj e.symm
          · exact h1 w hw
      · rintro ((⟨e, _⟩ | h) | ⟨h1, h2⟩)
        · exact absurd e.symm hj
        · exact Or.inl h
        · exact Or.inr ⟨fun w hw => h1 w (Or.inr hw), h2⟩

theorem slotAt_eq_some (ts : List (Int × α)) (hf : Functional ts) (i : Int) (v : α) :
    slotAt ts i = some v ↔ (i, v) ∈ ts := by
  unfold slotAt
  rw [foldl_slot ts hf]
  simp

theorem mem_kden_slotsFrom (ts : List (Int × α)) (lo : Int) (n : Nat) (i : Int) (v : α) :
    (i, v) ∈ kden lo (slotsFrom ts lo n) ↔ lo ≤ i ∧ i < lo + n ∧ slotAt ts i = some v := by
  induction n generalizing lo with
  | zero => simp [slotsFrom, kden]; omega
  | succ n ih =>
    simp only [slotsFrom]
    cases h : slotAt ts lo with
    | none =>
      simp only [kden, ih]
      constructor
      · rintro ⟨h1, h2, h3⟩; exact ⟨by omega, by omega, h3⟩
      · rintro ⟨h1, h2, h3⟩
        have : i ≠ lo := by intro e; subst e; rw [h] at h3; simp at h3
        exact ⟨by omega, by omega, h3⟩
    | some x =>
      simp only [kden, List.mem_cons, Prod.mk.injEq, ih]
      constructor
      · rintro (⟨rfl, rfl⟩ | ⟨h1, h2, h3⟩)
        · exact ⟨by omega, by omega, h⟩
        · exact ⟨by omega, by omega, h3⟩
      · rintro ⟨h1, h2, h3⟩
        by_cases e : i = lo
        · subst e; rw [h] at h3; exact Or.inl ⟨rfl, (Option.some.inj h3).symm⟩
        · exact Or.inr ⟨by omega, by omega, h3⟩

theorem minIdx_le {ts : List (Int × α)} {i : Int} {v : α} (h : (i, v) ∈ ts) : minIdx ts ≤ i := by
  induction ts with
  | nil => simp at h
  | cons t r ih =>
    cases r with
    | nil => simp only [List.mem_singleton] at h; subst h; simp [minIdx]
    | cons u r' =>
      simp only [minIdx]
      rcases List.mem_cons.1 h with e | h'
      · subst e; exact Int.min_le_left _ _
      · exact Int.le_trans (Int.min_le_right _ _) (ih h')

theorem le_maxIdx {ts : List (Int × α)} {i : Int} {v : α} (h : (i, v) ∈ ts) : i ≤ maxIdx ts := by
  induction ts with
  | nil => simp at h
  | cons t r ih =>
    cases r with
    | nil => simp only [List.mem_singleton] at h; subst h; simp [maxIdx]
    | cons u r' =>
      simp only [maxIdx]
      rcases List.mem_cons.1 h with e | h'
      · subst e; exact Int.le_max_left _ _
      · exact Int.le_trans (ih h') (Int.le_max_right _ _)

/-- `fill` holds exactly the given pairs when no index is given two values -/
theorem mem_kden_fill (ts : List (Int × α)) (hf : Functional ts) (i : Int) (v : α) :
    (i, v) ∈ kden (fill ts).1 (fill ts).2 ↔ (i, v) ∈ ts := by
  simp only [fill, mem_kden_slotsFrom, slotAt_eq_some ts hf]
  constructor
  · rintro ⟨_, _, h⟩; exact h
  · intro h
    have h1 := minIdx_le h
    have h2 := le_maxIdx h
    refine ⟨h1, ?_, h⟩
    omega

theorem mem_slotsFrom {ts : List (Int × α)} {lo : Int} {n : Nat} {o : Option α}
    (h : o ∈ slotsFrom ts lo n) : ∃ j, lo ≤ j ∧ j < lo + n ∧ o = slotAt ts j := by
  induction n generalizing lo with
  | zero => simp [slotsFrom] at h
  | succ n ih =>
    simp only [slotsFrom, List.mem_cons] at h
    rcases h with rfl | h
    · exact ⟨lo, by omega, by omega, rfl⟩
    · obtain ⟨j, h1, h2, h3⟩ := ih h
      exact ⟨j, by omega, by omega, h3⟩

theorem kden_map (g : α → β) (off : Int) (xs : List (Option α)) :
    kden off (xs.map (Option.map g)) = (kden off xs).map (fun t => (t.1, g t.2)) := by
  induction xs generalizing off with
  | nil => rfl
  | cons x r ih => cases x <;> simp [kden, ih]

theorem functionalB_iff [DecidableEq α] (ts : List (Int × α)) :
    Spec.functionalB ts = true ↔ Functional ts := by
  simp only [Spec.functionalB, List.all_eq_true, Bool.or_eq_true, bne_iff_ne, ne_eq, decide_eq_true_eq,
    Functional, Prod.forall]
  constructor
  · intro h i v w hv hw
    rcases h i v hv i w hw with h' | h'
    · exact absurd rfl h'
    · exact h'
  · intro h i v hv j w hw
    by_cases e : i = j
    · subst e; exact Or.inr (h i v w hv hw)
    · exact Or.inl e

end KSeq

theorem mem_dedup {α : Type} [DecidableEq α] (l : List α) (x : α) : x ∈ dedup l ↔ x ∈ l := by
  induction l with
  | nil => simp [dedup]
  | cons y r ih =>
    unfold dedup
    by_cases h : y ∈ dedup r
    · rw [if_pos h, ih]
      constructor
      · intro hx; exact List.mem_cons_of_mem _ hx
      · intro hx
        rcases List.mem_cons.1 hx with e | hx
        · subst e; exact ih.1 h
        · exact hx
    · rw [if_neg h]; simp [ih]

/-! ## classification of members -/

theorem classify_cases (x : V) :
    (∃ i c, classify x = .char i c ∧ x = V.pair "@char" (.num i) (.num c)) ∨
    (∃ i b, classify x = .byte i b ∧ x = V.pair "@byte" (.num i) (.num b)) ∨
    (∃ i v, classify x = .item i v ∧ x = V.pair "@item" (.num i) v) ∨
    (∃ k v, classify x = .entry k v ∧ x = V.pair "@value" k v) ∨
    (∃ k n v, classify x = .pair k n v ∧ x = V.pair n k v ∧ n ≠ "@") ∨
    (classify x = .other ∧ asPair x = none) := by
  cases hp : asPair x with
  | none => exact Or.inr (Or.inr (Or.inr (Or.inr (Or.inr ⟨by simp [classify, hp], rfl⟩))))
  | some p =>
    obtain ⟨k, name, v⟩ := p
    obtain ⟨hx, hn⟩ := asPair_eq hp
    have hpair : ∀ k', k' = k → classify x = .pair k' name v →
        (∃ k n v, classify x = .pair k n v ∧ x = V.pair n k v ∧ n ≠ "@") :=
      fun k' e h => ⟨k', name, v, h, e ▸ hx, hn⟩
    cases k with
    | num i =>
      by_cases h1 : name = "@char"
      · subst h1
        cases v with
        | num c =>
          by_cases hr : 0 ≤ c ∧ c ≤ 1114111
          · exact Or.inl ⟨i, c, by simp [classify, hp, hr], hx⟩
          · exact Or.inr (Or.inr (Or.inr (Or.inr (Or.inl (hpair _ rfl (by simp [classify, hp, hr]))))))
        | tup a => exact Or.inr (Or.inr (Or.inr (Or.inr (Or.inl (hpair _ rfl (by simp [classify, hp]))))))
        | set a => exact Or.inr (Or.inr (Or.inr (Or.inr (Or.inl (hpair _ rfl (by simp [classify, hp]))))))
      · by_cases h2 : name = "@byte"
        · subst h2
          cases v with
          | num c =>
            by_cases hr : 0 ≤ c ∧ c ≤ 255
            · exact Or.inr (Or.inl ⟨i, c, by simp [classify, hp, hr], hx⟩)
            · exact Or.inr (Or.inr (Or.inr (Or.inr (Or.inl (hpair _ rfl (by simp [classify, hp, hr]))))))
          | tup a => exact Or.inr (Or.inr (Or.inr (Or.inr (Or.inl (hpair _ rfl (by simp [classify, hp]))))))
          | set a => exact Or.inr (Or.inr (Or.inr (Or.inr (Or.inl (hpair _ rfl (by simp [classify, hp]))))))
        · by_cases h3 : name = "@item"
          · subst h3
            exact Or.inr (Or.inr (Or.inl ⟨i, v, by simp [classify, hp], hx⟩))
          · by_cases h4 : name = "@value"
            · subst h4
              exact Or.inr (Or.inr (Or.inr (Or.inl ⟨.num i, v, by simp [classify, hp], hx⟩)))
            · exact Or.inr (Or.inr (Or.inr (Or.inr (Or.inl
                (hpair _ rfl (by simp [classify, hp, h1, h2, h3, h4]))))))
    | tup a =>
      by_cases h4 : name = "@value"
      · subst h4
        exact Or.inr (Or.inr (Or.inr (Or.inl ⟨.tup a, v, by simp [classify, hp], hx⟩)))
      · exact Or.inr (Or.inr (Or.inr (Or.inr (Or.inl (hpair _ rfl (by simp [classify, hp, h4]))))))
    | set a =>
      by_cases h4 : name = "@value"
      · subst h4
        exact Or.inr (Or.inr (Or.inr (Or.inl ⟨.set a, v, by simp [classify, hp], hx⟩)))
      · exact Or.inr (Or.inr (Or.inr (Or.inr (Or.inl (hpair _ rfl (by simp [classify, hp, h4]))))))

theorem classify_char {x : V} {i c : Int} (h : classify x = .char i c) :
    x = V.pair "@char" (.num i) (.num c) := by
  rcases classify_cases x with ⟨_, _, h1, h2⟩ | ⟨_, _, h1, _⟩ | ⟨_, _, h1, _⟩ | ⟨_, _, h1, _⟩ | ⟨_, _, _, h1, _⟩ | ⟨h1, _⟩
  all_goals rw [h1] at h
  · cases h; exact h2
  all_goals cases h

theorem classify_byte {x : V} {i c : Int} (h : classify x = .byte i c) :
    x = V.pair "@byte" (.num i) (.num c) := by
  rcases classify_cases x with ⟨_, _, h1, _⟩ | ⟨_, _, h1, h2⟩ | ⟨_, _, h1, _⟩ | ⟨_, _, h1, _⟩ | ⟨_, _, _, h1, _⟩ | ⟨h1, _⟩
  all_goals rw [h1] at h
  · cases h
  · cases h; exact h2
  all_goals cases h

theorem classify_item {x : V} {i : Int} {v : V} (h : classify x = .item i v) :
    x = V.pair "@item" (.num i) v := by
  rcases classify_cases x with ⟨_, _, h1, _⟩ | ⟨_, _, h1, _⟩ | ⟨_, _, h1, h2⟩ | ⟨_, _, h1, _⟩ | ⟨_, _, _, h1, _⟩ | ⟨h1, _⟩
  all_goals rw [h1] at h
  · cases h
  · cases h
  · cases h; exact h2
  all_goals cases h

theorem classify_entry {x k v : V} (h : classify x = .entry k v) : x = V.pair "@value" k v := by
  rcases classify_cases x with ⟨_, _, h1, _⟩ | ⟨_, _, h1, _⟩ | ⟨_, _, h1, _⟩ | ⟨_, _, h1, h2⟩ | ⟨_, _, _, h1, _⟩ | ⟨h1, _⟩
  all_goals rw [h1] at h
  · cases h
  · cases h
  · cases h
  · cases h; exact h2
  all_goals cases h

theorem classify_pair {x k v : V} {n : String} (h : classify x = .pair k n v) : x = V.pair n k v ∧ n ≠ "@" := by
  rcases classify_cases x with ⟨_, _, h1, _⟩ | ⟨_, _, h1, _⟩ | ⟨_, _, h1, _⟩ | ⟨_, _, h1, _⟩ | ⟨_, _, _, h1, h2⟩ | ⟨h1, _⟩
  all_goals rw [h1] at h
  · cases h
  · cases h
  · cases h
  · cases h
  · cases h; exact h2
  · cases h

theorem mem_charsOf (xs : List V) (t : Int × Int) :
    t ∈ charsOf xs ↔ ∃ x ∈ xs, classify x = .char t.1 t.2 := by
  simp only [charsOf, List.mem_filterMap]
  constructor
  · rintro ⟨x, hx, h⟩
    refine ⟨x, hx, ?_⟩
    cases hc : classify x <;> rw [hc] at h <;> simp at h
    subst h; rfl
  · rintro ⟨x, hx, h⟩; exact ⟨x, hx, by rw [h]⟩

theorem mem_bytesOf (xs : List V) (t : Int × Int) :
    t ∈ bytesOf xs ↔ ∃ x ∈ xs, classify x = .byte t.1 t.2 := by
  simp only [bytesOf, List.mem_filterMap]
  constructor
  · rintro ⟨x, hx, h⟩
    refine ⟨x, hx, ?_⟩
    cases hc : classify x <;> rw [hc] at h <;> simp at h
    subst h; rfl
  · rintro ⟨x, hx, h⟩; exact ⟨x, hx, by rw [h]⟩

theorem mem_itemsOf (xs : List V) (t : Int × V) :
    t ∈ itemsOf xs ↔ ∃ x ∈ xs, classify x = .item t.1 t.2 := by
  simp only [itemsOf, List.mem_filterMap]
  constructor
  · rintro ⟨x, hx, h⟩
    refine ⟨x, hx, ?_⟩
    cases hc : classify x <;> rw [hc] at h <;> simp at h
    subst h; rfl
  · rintro ⟨x, hx, h⟩; exact ⟨x, hx, by rw [h]⟩

theorem mem_entriesOf (xs : List V) (t : V × V) :
    t ∈ entriesOf xs ↔ ∃ x ∈ xs, classify x = .entry t.1 t.2 := by
  simp only [entriesOf, List.mem_filterMap]
  constructor
  · rintro ⟨x, hx, h⟩
    refine ⟨x, hx, ?_⟩
    cases hc : classify x <;> rw [hc] at h <;> simp at h
    subst h; rfl
  · rintro ⟨x, hx, h⟩; exact ⟨x, hx, by rw [h]⟩

theorem mem_pairsOf (xs : List V) (t : String × V × V) :
    t ∈ pairsOf xs ↔ ∃ x ∈ xs, classify x = .pair t.2.1 t.1 t.2.2 := by
  simp only [pairsOf, List.mem_filterMap]
  constructor
  · rintro ⟨x, hx, h⟩
    refine ⟨x, hx, ?_⟩
    cases hc : classify x <;> rw [hc] at h <;> simp at h
    subst h; rfl
  · rintro ⟨x, hx, h⟩; exact ⟨x, hx, by rw [h]⟩

theorem mem_othersOf (xs : List V) (x : V) : x ∈ othersOf xs ↔ x ∈ xs ∧ classify x = .other := by
  simp only [othersOf, List.mem_filter]
  constructor
  · rintro ⟨hx, h⟩
    refine ⟨hx, ?_⟩
    cases hc : classify x <;> rw [hc] at h <;> simp at h
  · rintro ⟨hx, h⟩; exact ⟨hx, by rw [h]⟩

end Arrai.C05
