/-
  C05 case generator: arr.ai programs that build keyed collections in many representations
  (literals, offsets, holes made with `where` / `without` / `++` onto offset operands, `|` of
  different kinds, explicit sets of pairs, relation literals), then call them, call them safely,
  transform them with `>>` / `>>>`, concatenate and offset them.  Two evaluators run over the same
  program: `CE.impl` (the transliterated Go code, on representations) and `CE.spec` (the
  specification, on meanings).
-/
import Arrai.C05.Model
import Arrai.Core.Lit

namespace Arrai.C05
open Arrai

/-! ## transformers -/
inductive Tr where
  | ident | plus1 | const (n : Int) | toStr | neg1 | table (kvs : List (Int × Int))
  | keyOnly | addKey | pairKV | fail
  deriving Inhabited

def qV : V := (Lit.str 0 [113]).den

def Tr.fn : Tr → F
  | .ident => fun _ v => .ok v
  | .plus1 => fun _ v => match v with | .num n => .ok (.num (n + 1)) | _ => .error .other
  | .const n => fun _ _ => .ok (.num n)
  | .toStr => fun _ _ => .ok qV
  | .neg1 => fun _ _ => .ok (.num (-1))
  | .table kvs => fun _ v =>
    match v with
    | .num n => (match kvs.lookup n with | some m => .ok (.num m) | none => .error .noReturn)
    | _ => .error .noReturn
  | .keyOnly => fun k _ => .ok k
  | .addKey => fun k v => match k, v with | .num a, .num b => .ok (.num (a + b)) | _, _ => .error .other
  | .pairKV => fun k v => .ok (V.mkArr [k, v])
  | .fail => fun _ _ => .error .other

def Tr.body : Tr → String
  | .ident => "x"
  | .plus1 => "x + 1"
  | .const n => Lit.numSrc n
  | .toStr => "'q'"
  | .neg1 => "-1"
  | .table kvs => "{" ++ ", ".intercalate (kvs.map (fun p => s!"{p.1}: {p.2}")) ++ "}(x)"
  | .keyOnly => "i"
  | .addKey => "i + x"
  | .pairKV => "[i, x]"
  | .fail => "(a: x).b"

def Tr.src (withAt : Bool) (t : Tr) : String := (if withAt then "\\i \\x " else "\\x ") ++ t.body
def Tr.name : Tr → String
  | .ident => "ident" | .plus1 => "plus1" | .const _ => "const" | .toStr => "nonchar" | .neg1 => "neg"
  | .table _ => "partial" | .keyOnly => "key" | .addKey => "addkey" | .pairKV => "pairkv" | .fail => "fail"

/-! ## argument literals -/
inductive ArgL where
  | lit (l : Lit)
  | frac (n : Int)
  deriving Inhabited

def ArgL.arg : ArgL → Arg
  | .lit l => .val l.den
  | .frac n => .frac n
def ArgL.src : ArgL → String
  | .lit l => l.src
  | .frac n => if n ≥ 0 then s!"{n}.5" else s!"(-{-n - 1}.5)"

/-! ## collection expressions -/
inductive CE where
  | str (off : Int) (cs : List Nat)
  | bytes (off : Int) (bs : List Nat)
  | arr (off : Int) (xs : List (Option Lit))
  | dict (kvs : List (Lit × Lit))
  | pairs (ps : List (Lit × String × Lit))
  | relLit (atFirst : Bool) (name : String) (rows : List (Lit × Lit))
  /-- `{|@, j| ak} <-> {|j, name| kv}` (atLeft) or the operands swapped: a relation built by
  composition, whose physical heading is [@, name] or [name, @] -/
  | compose (atLeft : Bool) (name : String) (ak kv : List (Lit × Lit))
  /-- `{|@| as} <&> {|name| vs}` (atLeft) or swapped: a cross product -/
  | cross (atLeft : Bool) (name : String) (ks vs : List Lit)
  | empty | tt
  | plain (xs : List Lit)
  | whereNe (e : CE) (i : Int)
  | without (e : CE) (k : Lit) (name : String) (v : Lit)
  | concat (a b : CE)
  | offset (n : ArgL) (e : CE)
  | union (a b : CE)
  | arrow (withAt : Bool) (t : Tr) (e : CE)
  deriving Inhabited

def keyIs (i : Int) (x : V) : Bool :=
  match asPair x with
  | some (.num j, _, _) => i == j
  | _ => false

def pairsV (ps : List (Lit × String × Lit)) : List V := ps.map (fun p => V.pair p.2.1 p.1.den p.2.2.den)
def dictV (kvs : List (Lit × Lit)) : List (V × V) := kvs.map (fun p => (p.1.den, p.2.den))

def composeRows (ak kv : List (Lit × Lit)) : List (V × V) :=
  (dictV ak).flatMap (fun a => (dictV kv).filterMap (fun b => if a.2 = b.1 then some (a.1, b.2) else none))
def crossRows (ks vs : List Lit) : List (V × V) :=
  (Lit.denList ks).flatMap (fun k => (Lit.denList vs).map (fun v => (k, v)))

/-- the heading a relation literal gets: relationBuilder sorts the names -/
def builderAtFirst (name : String) : Bool := decide ("@" < name)

/-- `n \ S` is defined on sequences: one sugar attribute, integer indices -/
def seqLike : V → Bool
  | .set [] => true
  | .set (x :: r) =>
    (match asPair x with
     | some (.num _, name, _) =>
       (name = "@char" || name = "@byte" || name = "@item") &&
         r.all (fun y => match asPair y with | some (.num _, n', _) => n' == name | _ => false)
     | _ => false)
  | _ => false

def CE.impl : CE → Res Coll
  | .str off cs => .ok (Impl.newOffsetString (cs.map Int.ofNat) off)
  | .bytes off bs => .ok (Impl.newOffsetBytes bs off)
  | .arr off xs => .ok (Impl.newOffsetArray off (Lit.denOpts xs))
  | .dict kvs => .ok (if kvs.isEmpty then .empty else .one (.dict (Impl.newDict (dictV kvs))))
  | .pairs ps => .ok (Impl.build (pairsV ps))
  | .relLit _ name rows =>
    -- whatever order the literal's heading is written in, the builder sorts the names
    .ok (if rows.isEmpty then .empty
         else .one (.rel (builderAtFirst name) name
           (dedup ((dictV rows).map (fun r => if builderAtFirst name then r else (r.2, r.1))))))
  | .compose atLeft name ak kv => .ok (Impl.joinPairs atLeft name (composeRows ak kv))
  | .cross atLeft name ks vs => .ok (Impl.joinPairs atLeft name (crossRows ks vs))
  | .empty => .ok .empty
  | .tt => .ok .true_
  | .plain xs => .ok (Impl.build (Lit.denList xs))
  | .whereNe e i => (match e.impl with
    | .ok c => .ok (Impl.build (c.members.filter (fun x => !keyIs i x)))
    | .error e => .error e)
  | .without e k name v => (match e.impl with
    | .ok c => .ok (Impl.build (c.members.filter (fun x => !decide (x = V.pair name k.den v.den))))
    | .error e => .error e)
  | .concat a b => (match a.impl, b.impl with
    | .ok x, .ok y => Impl.concat x y
    | .error e, _ => .error e
    | _, .error e => .error e)
  | .offset n e => (match e.impl with
    | .ok c => Impl.offset n.arg c
    | .error e => .error e)
  | .union a b => (match a.impl, b.impl with
    | .ok x, .ok y => .ok (Impl.build (x.members ++ y.members))
    | .error e, _ => .error e
    | _, .error e => .error e)
  | .arrow _ t e => (match e.impl with
    | .ok c => Impl.seqArrow t.fn c
    | .error e => .error e)

def setMembers : V → List V
  | .set xs => xs
  | _ => []

def CE.spec : CE → Res V
  | .str off cs => .ok (Lit.str off cs).den
  | .bytes off bs => .ok (Lit.bytes off bs).den
  | .arr off xs => .ok (Lit.arr off xs).den
  | .dict kvs => .ok (Lit.dict kvs).den
  | .pairs ps => .ok (V.mkSet (pairsV ps))
  | .relLit _ name rows => .ok (V.mkSet ((dictV rows).map (fun r => V.pair name r.1 r.2)))
  | .compose _ name ak kv => .ok (V.mkSet ((composeRows ak kv).map (fun r => V.pair name r.1 r.2)))
  | .cross _ name ks vs => .ok (V.mkSet ((crossRows ks vs).map (fun r => V.pair name r.1 r.2)))
  | .empty => .ok V.none
  | .tt => .ok V.tt
  | .plain xs => .ok (V.mkSet (Lit.denList xs))
  | .whereNe e i => (match e.spec with
    | .ok S => .ok (.set ((setMembers S).filter (fun x => !keyIs i x)))
    | .error e => .error e)
  | .without e k name v => (match e.spec with
    | .ok S => .ok (.set (FinSet.erase (setMembers S) (V.pair name k.den v.den)))
    | .error e => .error e)
  | .concat a b => (match a.spec, b.spec with
    | .ok x, .ok y => Spec.concat x y
    | .error e, _ => .error e
    | _, .error e => .error e)
  | .offset n e => (match e.spec with
    | .ok S => if seqLike S then Spec.offset n.arg S else .error .other
    | .error e => .error e)
  | .union a b => (match a.spec, b.spec with
    | .ok x, .ok y => .ok (.set (FinSet.union (setMembers x) (setMembers y)))
    | .error e, _ => .error e
    | _, .error e => .error e)
  | .arrow _ t e => (match e.spec with
    | .ok S => Spec.mapVals t.fn S
    | .error e => .error e)

/-- the spec value of every sub-expression (for the known-finding classes) -/
def CE.subSpecs (c : CE) : List V :=
  (match c.spec with | .ok v => [v] | .error _ => []) ++
  (match c with
   | .whereNe e _ => e.subSpecs
   | .without e _ _ _ => e.subSpecs
   | .concat a b => a.subSpecs ++ b.subSpecs
   | .offset _ e => e.subSpecs
   | .union a b => a.subSpecs ++ b.subSpecs
   | .arrow _ _ e => e.subSpecs
   | _ => [])

def pairSrc (k : Lit) (name : String) (v : Lit) : String := s!"(@: {k.src}, {Lit.nameSrc name}: {v.src})"

def CE.src : CE → String
  | .str off cs => "(" ++ (Lit.str off cs).src ++ ")"
  | .bytes off bs => "(" ++ (Lit.bytes off bs).src ++ ")"
  | .arr off xs => "(" ++ (Lit.arr off xs).src ++ ")"
  | .dict kvs => (Lit.dict kvs).src
  | .pairs ps => "{" ++ ", ".intercalate (ps.map (fun p => pairSrc p.1 p.2.1 p.2.2)) ++ "}"
  | .relLit atFirst name rows =>
    "{|" ++ (if atFirst then s!"@, {name}" else s!"{name}, @") ++ "| " ++
      ", ".intercalate (rows.map (fun r =>
        if atFirst then s!"({r.1.src}, {r.2.src})" else s!"({r.2.src}, {r.1.src})")) ++ "}"
  | .compose atLeft name ak kv =>
    let a := "{|@, j| " ++ ", ".intercalate (ak.map (fun r => s!"({r.1.src}, {r.2.src})")) ++ "}"
    let b := "{|j, " ++ name ++ "| " ++ ", ".intercalate (kv.map (fun r => s!"({r.1.src}, {r.2.src})")) ++ "}"
    if atLeft then s!"({a} <-> {b})" else s!"({b} <-> {a})"
  | .cross atLeft name ks vs =>
    let a := "{|@| " ++ ", ".intercalate (ks.map (fun k => s!"({k.src})")) ++ "}"
    let b := "{|" ++ name ++ "| " ++ ", ".intercalate (vs.map (fun v => s!"({v.src})")) ++ "}"
    if atLeft then s!"({a} <&> {b})" else s!"({b} <&> {a})"
  | .empty => "{}"
  | .tt => "true"
  | .plain xs => (Lit.set xs).src
  | .whereNe e i => s!"({e.src} where .@ != {Lit.numSrc i})"
  | .without e k name v => s!"({e.src} without {pairSrc k name v})"
  | .concat a b => s!"({a.src} ++ {b.src})"
  | .offset n e => s!"(({n.src})\\{e.src})"
  | .union a b => s!"({a.src} | {b.src})"
  | .arrow withAt t e => s!"({e.src} {if withAt then ">>>" else ">>"} {t.src withAt})"

/-! ## observables -/
def errName : Err → String
  | .noReturn => "error:noreturn" | .tooMany => "error:toomany" | .other => "error:other"

/-- classified (harness op `call`) -/
def obsC : Res V → String
  | .ok v => v.canon
  | .error e => errName e
/-- collapsed (harness op `eval`) -/
def obsE : Res V → String
  | .ok v => v.canon
  | .error _ => "error"

def fbV : V := V.mkTup [("fb", .num 1)]
def fbSrc : String := "(fb: 1)"

def classOf (c : CE) : String :=
  let subs := c.subSpecs
  if subs.any Spec.superimposed then "KF-superimposed"
  else if subs.any Spec.bytesGap then "KF-bytes-holes"
  else "good"

def implCall (c : CE) (a : Arg) : Res V :=
  match c.impl with
  | .ok r => Impl.setCall r a
  | .error _ => .error .other
def specCall (c : CE) (a : Arg) : Res V :=
  match c.spec with
  | .ok S => Spec.callAny S a
  | .error _ => .error .other
def specKeyed (c : CE) : Bool :=
  match c.spec with
  | .ok S => Spec.keyed S
  | .error _ => true

def mkCallC (id strat : String) (c : CE) (a : ArgL) : Case :=
  { id := id, cls := classOf c, kind := "call", stratum := strat,
    model := obsC (implCall c a.arg),
    spec := obsC (specCall c a.arg),
    payload := [c.src, a.src] }

def mkPlainCallC (id strat : String) (c : CE) (a : ArgL) : Case :=
  { id := id, cls := classOf c, kind := "eval", stratum := strat,
    model := obsE (implCall c a.arg),
    spec := obsE (specCall c a.arg),
    payload := [s!"{c.src}({a.src})"] }

def mkSafeC (id strat : String) (c : CE) (a : ArgL) : Case :=
  let m : Res V := match c.impl with
    | .ok r => (Impl.safeCall r a.arg fbV).2
    | .error _ => .error .other
  let s : Res V := match c.spec with
    | .ok S => (match Spec.callAny S a.arg with | .error .noReturn => .ok fbV | r => r)
    | .error _ => .error .other
  { id := id, cls := classOf c, kind := "eval", stratum := strat,
    model := obsE m, spec := obsE s,
    payload := [s!"{c.src}({a.src})?:{fbSrc}"] }

/-- `c(<expr>)?:d` where the argument expression itself fails: with a missing attribute the fallback
is taken (known finding), any other failure is an error as specified -/
def mkSafeXC (id strat : String) (c : CE) (x : Spec.ArgX) : Case :=
  let argSrc := match x with
    | .missingAttr => "(a: 1).b"
    | .otherErr => "{1: 2}(7)"
    | .val _ => "0"
  let m : Res V := match c.impl with
    | .ok r => (Impl.safeCallX r x fbV).2
    | .error _ => .error .other
  let s : Res V := match c.spec with
    | .ok S => (Spec.safeCallX S x fbV).2
    | .error _ => .error .other
  let bad := match x with | .missingAttr => true | _ => false
  { id := id, cls := if bad then "KF-safecall-arg-missing-attr" else classOf c, kind := "eval", stratum := strat,
    model := obsE m, spec := obsE s, payload := [s!"{c.src}({argSrc})?:{fbSrc}"] }

/-- `c(i)?(j)?:d` / `c(i)(j)?:d`: two call tails, the first one safe or not (SafeTailExpr's loop) -/
def mkChainC (id strat : String) (c : CE) (safe1 : Bool) (i j : ArgL) : Case :=
  let step2 (v : V) (call2 : V → Res V) : Res V :=
    match v with
    | .set _ => (match call2 v with
      | .error .noReturn => .ok fbV
      | r => r)
    | _ => .error .other
  let m : Res V := match c.impl with
    | .ok r => (match Impl.setCall r i.arg with
      | .error .noReturn => if safe1 then .ok fbV else .error .noReturn
      | .error e => .error e
      | .ok v => step2 v (fun v => Impl.setCall (Impl.build (Spec.members v)) j.arg))
    | .error _ => .error .other
  let s : Res V := match c.spec with
    | .ok S => (match Spec.callAny S i.arg with
      | .error .noReturn => if safe1 then .ok fbV else .error .noReturn
      | .error e => .error e
      | .ok v => step2 v (fun v => Spec.callAny v j.arg))
    | .error _ => .error .other
  { id := id, cls := classOf c, kind := "eval", stratum := strat,
    model := obsE m, spec := obsE s,
    payload := [if safe1 then s!"{c.src}({i.src})?({j.src})?:{fbSrc}" else s!"{c.src}({i.src})({j.src})?:{fbSrc}"] }

def mkValueC (id strat : String) (c : CE) : Case :=
  { id := id, cls := classOf c, kind := "eval", stratum := strat,
    model := obsE (match c.impl with | .ok r => .ok r.den | .error e => .error e),
    spec := obsE c.spec, payload := [c.src] }

/-! ### value-level source text and the cached-counter observables -/
mutual
def vSrc : V → String
  | .num n => Lit.numSrc n
  | .tup as => "(" ++ ", ".intercalate (vSrcAttrs as) ++ ")"
  | .set xs => "{" ++ ", ".intercalate (vSrcList xs) ++ "}"
def vSrcAttrs : List (String × V) → List String
  | [] => []
  | (n, v) :: r => (Lit.nameSrc n ++ ": " ++ vSrc v) :: vSrcAttrs r
def vSrcList : List V → List String
  | [] => []
  | v :: r => vSrc v :: vSrcList r
end

def farX : CE := .offset (.lit (.num 100)) (.str 0 [120])

/-- canon of the result alone is blind to stale cached fields (String.holes, Array.count): also observe
`count`, equality with the literal spelling of the specified result (both orders) and a follow-up
`++` whose shift is the count -/
def mkObs (id strat : String) (c : CE) : List Case :=
  match c.spec, c.impl with
  | .ok R, .ok r =>
    let lit := vSrc R
    let fm : Res V := match farX.impl with
      | .ok x => (match Impl.concat r x with | .ok y => .ok y.den | .error e => .error e)
      | .error e => .error e
    let fs : Res V := match farX.spec with
      | .ok X => Spec.concat R X
      | .error e => .error e
    let pack (n : Nat) (f : Res V) : String :=
      match f with
      | .ok F => (V.mkTup [("n", .num (Int.ofNat n)), ("e", V.tt), ("g", V.tt), ("f", F)]).canon
      | .error _ => "error"
    [{ id := id ++ "o", cls := classOf c, kind := "eval", stratum := "counters/" ++ strat,
       model := pack (Impl.count r) fm, spec := pack (Spec.card R) fs,
       payload := [s!"let r = {c.src}; (n: r count, e: r = {lit}, g: {lit} = r, f: r ++ {farX.src})"] }]
  | _, _ => []

def mkCall (id strat : String) (c : CE) (a : ArgL) : Case × Option CE := (mkCallC id strat c a, some c)
def mkPlainCall (id strat : String) (c : CE) (a : ArgL) : Case × Option CE := (mkPlainCallC id strat c a, some c)
def mkSafe (id strat : String) (c : CE) (a : ArgL) : Case × Option CE := (mkSafeC id strat c a, some c)
def mkSafeX (id strat : String) (c : CE) (x : Spec.ArgX) : Case × Option CE := (mkSafeXC id strat c x, none)
def mkChain (id strat : String) (c : CE) (safe1 : Bool) (i j : ArgL) : Case × Option CE :=
  (mkChainC id strat c safe1 i j, none)
def mkValue (id strat : String) (c : CE) : Case × Option CE := (mkValueC id strat c, some c)

/-! ## generators -/
def offs : List Int := [0, 0, 0, -2, 3]
def genOffC : Gen Int := pick offs

def genCs : Gen (List Nat) := do
  let n ← rand 5
  genList n (do pure (97 + (← rand 3)))
def genBs : Gen (List Nat) := do
  let n ← rand 5
  genList n (pick [0, 1, 2, 97, 254])

def genElem : Gen Lit := do
  let r ← rand 6
  match r with
  | 0 => pure (.str 0 [97])
  | 1 => pure (.str 0 [98, 99])
  | _ => do pure (.num (← randInt (-1) 4))

def genItems : Gen (List (Option Lit)) := do
  let n ← rand 5
  let xs ← genList n genElem
  Lit.withHoles xs

inductive SK | S | B | A deriving DecidableEq, Inhabited
def SK.name : SK → String | .S => "str" | .B => "bytes" | .A => "arr"

def genSeqLit (k : SK) : Gen CE := do
  let off ← genOffC
  match k with
  | .S => do pure (.str off (← genCs))
  | .B => do pure (.bytes off (← genBs))
  | .A => do pure (.arr off (← genItems))

def genSK : Gen SK := pick [SK.S, SK.S, SK.A, SK.A, SK.B]
def otherSK (k : SK) : Gen SK := do
  let b ← chance 1 2
  pure (match k with
    | .S => if b then .B else .A
    | .B => if b then .S else .A
    | .A => if b then .S else .B)

/-- numeric keys of the spec value, smallest and largest -/
def numKeys (c : CE) : List Int :=
  match c.spec with
  | .ok S => (Spec.keys S).filterMap (fun k => match k with | .num i => some i | _ => none)
  | .error _ => []
def loKey (c : CE) : Int := (numKeys c).foldl min ((numKeys c).headD 0)
def hiKey (c : CE) : Int := (numKeys c).foldl max ((numKeys c).headD 0)

/-- punch a hole: `where`, `without` (strings and arrays, literal operand) or `++` onto an offset operand -/
def genHoley (k : SK) : Gen (CE × String) := do
  let base ← genSeqLit k
  let r ← rand 4
  let lo := loKey base
  let hi := hiKey base
  match r with
  | 0 => do
    let i ← randInt (lo - 1) (hi + 1)
    pure (.whereNe base i, "where")
  | 1 => do
    let i ← randInt lo hi
    let j ← randInt lo hi
    pure (.whereNe (.whereNe base i) j, "where2")
  | 2 =>
    match base with
    | .str off cs =>
      -- strictly inside the literal: removal at an end is Without's own trimming code (C02)
      if cs.length < 3 then pure (base, "lit") else do
        let j := 1 + (← rand (cs.length - 2))
        pure (.without base (.num (off + j)) "@char" (.num (Int.ofNat (cs.getD j 0))), "without")
    | .arr off xs =>
      if xs.length < 3 then pure (base, "lit") else do
        let j := 1 + (← rand (xs.length - 2))
        match xs.getD j none with
        | some v => pure (.without base (.num (off + j)) "@item" v, "without")
        | none => pure (base, "lit")
    | _ => do
      let i ← randInt lo hi
      pure (.whereNe base i, "where")
  | _ => do
    let right ← genSeqLit k
    let g ← pick [1, 2, 3, -1]
    pure (.concat base (.offset (.lit (.num g)) right), "concat-offset")

def genSeq (k : SK) : Gen (CE × String) := do
  let r ← rand 5
  if r < 2 then do pure ((← genSeqLit k), "lit") else genHoley k

def keyPool : List Lit := [.str 0 [107], .str 0 [97], .num 0, .num 1, .num 2, .num 5, .tup [("a", .num 1)]]

def genDictLit : Gen CE := do
  let n ← rand 4
  let kvs ← genList n (do pure ((← pick keyPool), (← genElem)))
  pure (.dict (Lit.dedupBy (fun kv => kv.1.den) kvs))

def sugarNames : List String := ["@char", "@item", "@value", "@byte"]

def genPairs : Gen CE := do
  let n ← rand 5
  let ps ← genList n (do
    let sugar ← chance 1 3
    if sugar then do
      let name ← pick sugarNames
      let k ← randInt (-1) 3
      let v ← if name == "@char" then do pure (Lit.num (97 + (← rand 3)))
              else if name == "@byte" then do pure (Lit.num (← rand 3))
              else genElem
      pure ((Lit.num k, name, v) : Lit × String × Lit)
    else do
      let name ← pick ["a", "a", "b", "$a"]
      pure ((← pick keyPool), name, (← genElem)))
  pure (.pairs ps)

def genRel : Gen CE := do
  let n ← rand 4
  let rows ← genList (n + 1) (do pure ((← pick keyPool), (← genElem)))
  pure (.relLit (← chance 1 2) (← pick ["a", "b", "x", "$a"]) rows)

/-- attribute names sorting before (`$a`) and after (`a`) `@`, and the sugared ones -/
def joinNames : List String := ["$a", "a", "a", "@value", "@item", "@char"]

/-- a two-attribute relation with `@` built by a composition or a cross product, in either operand
order (so that `@` is physically the first or the last column), 1–3 rows per operand, keys repeated -/
def genJoinRelNamed (name : String) : Gen (CE × String) := do
  let atLeft ← chance 1 2
  let numericOnly := name == "@item" || name == "@char"
  let genKey : Gen Lit := do
    if numericOnly || (← chance 3 4) then do pure (Lit.num (← randInt (-1) 2)) else pick keyPool
  let genVal : Gen Lit := if name == "@char" then do pure (Lit.num (97 + (← rand 3))) else genElem
  let side := if atLeft then "L" else "R"
  if (← chance 3 4) then do
    let ak ← genList (1 + (← rand 3)) (do pure ((← genKey), Lit.num (1 + (← rand 3))))
    let kv ← genList (1 + (← rand 3)) (do pure (Lit.num (1 + (← rand 3)), (← genVal)))
    pure (.compose atLeft name ak kv, s!"reljoin/{name}/compose-{side}")
  else do
    let ks ← genList (1 + (← rand 2)) genKey
    let vs ← genList (1 + (← rand 2)) genVal
    pure (.cross atLeft name ks vs, s!"reljoin/{name}/cross-{side}")

def genJoinRel : Gen (CE × String) := do genJoinRelNamed (← pick joinNames)

/-- a keyed collection and the name of its representation stratum -/
def genKeyed : Gen (CE × String) := do
  let r ← rand 25
  if r ≥ 20 then genJoinRel else
  if r < 8 then do
    let k ← genSK
    let (c, how) ← genSeq k
    pure (c, s!"{k.name}/{how}")
  else if r < 10 then do pure ((← genDictLit), "dict/lit")
  else if r < 12 then do
    -- duplicate keys via `|` of dicts
    let a ← genDictLit
    let b ← genDictLit
    pure (.union a b, "dict/union")
  else if r < 15 then do pure ((← genPairs), "pairs")
  else if r < 16 then do pure ((← genRel), "rel")
  else if r < 18 then do
    -- a union of two different kinds of sequence
    let k ← genSK
    let k' ← otherSK k
    pure (.union (← genSeqLit k) (← genSeqLit k'), s!"union/{k.name}+{k'.name}")
  else if r < 19 then do
    let k ← genSK
    let other ← if (← chance 1 2) then genDictLit else genRel
    pure (.union (← genSeqLit k) other, s!"union/{k.name}+keyed")
  else pure (.empty, "empty")

def hasCharByte (c : CE) : Bool :=
  match c.spec with
  | .ok (.set xs) => xs.any (fun x => match asPair x with
      | some (_, name, _) => name == "@char" || name == "@byte"
      | none => false)
  | _ => false

def isSugarRep (c : CE) : Bool :=
  match c.impl with
  | .ok (.one (.str _ _)) | .ok (.one (.bytes _ _)) | .ok (.one (.arr _ _)) | .ok (.one (.dict _)) => true
  | _ => false

def allNum (c : CE) : Bool :=
  match c.spec with
  | .ok (.set xs) => xs.all (fun x => match asPair x with
      | some (.num _, _, .num _) => true
      | _ => false)
  | _ => false

def genTr (withAt : Bool) (c : CE) : Gen Tr := do
  -- the generic `case Set` loop re-specialises tuples through NewTuple, whose conversions of
  -- non-char values are another property's concern: keep chars chars there
  let safeOnly := !isSugarRep c && hasCharByte c
  let tbl : Tr := .table [(97, 65), (98, 66), (0, 7), (1, 8)]
  let common : List Tr := [.ident, .plus1, .const 98, tbl]
  let risky : List Tr := [.toStr, .neg1, .const 300, .const 7, .fail]
  let keyed : List Tr := [.keyOnly, .pairKV] ++ (if allNum c then [.addKey] else [])
  let pool := common ++ (if safeOnly then [] else risky ++ (if withAt then keyed else []))
  pick pool

def genArgFor (c : CE) : Gen (ArgL × String) := do
  let lo := loKey c
  let hi := hiKey c
  let ks := numKeys c
  let r ← rand 12
  if r < 4 then do
    -- present (numeric or pooled key)
    let present := keyPool.filter (fun l => match c.spec with
      | .ok S => (Spec.keys S).any (fun k => decide (k = l.den))
      | .error _ => false)
    if !ks.isEmpty && (present.isEmpty || (← chance 2 3)) then do
      pure (.lit (.num (← pick ks)), "present")
    else if !present.isEmpty then do pure (.lit (← pick present), "present")
    else pure (.lit (.num 0), "absent")
  else if r < 6 then do
    -- inside the extent (a hole if there is one)
    let i ← randInt lo hi
    pure (.lit (.num i), if ks.contains i then "present" else "hole")
  else if r < 8 then do
    let i ← pick [lo - 1, hi + 1, lo - 2, hi + 2]
    pure (.lit (.num i), if ks.contains i then "present" else "outside")
  else if r < 9 then do pure (.frac (← randInt (lo - 1) hi), "non-integer")
  else if r < 11 then do
    let l ← pick ([Lit.str 0 [120], .tup [("b", .num 2)], .set [.num 1], .tt, .ff, .arr 0 [some (.num 0)]] ++ keyPool)
    pure (.lit l, "other-kind")
  else pure (.lit (.num (← randInt (-3) 6)), "random")

def genOffsetArg : Gen ArgL := do
  let r ← rand 12
  if r == 0 then pure (.frac 1)
  else if r == 1 then pure (.lit (.str 0 [97]))
  else do pure (.lit (.num (← pick [-2, 3, 1, 0, -1, 5])))

def genCase (idx : Nat) : Gen (Case × Option CE) := do
  let id := s!"C05-{idx}"
  let kind ← rand 20
  if kind < 6 then do
    let (c, rep) ← genKeyed
    let (a, ak) ← genArgFor c
    pure (mkCall id s!"call/{rep}/{ak}" c a)
  else if kind < 9 then do
    let (c, rep) ← genKeyed
    let (a, ak) ← genArgFor c
    if (← chance 1 12) && Spec.keyed (match c.spec with | .ok S => S | .error _ => V.none) && c.spec.toOption.isSome then
      if (← chance 1 2) then pure (mkSafeX id s!"safecall/{rep}/arg-expr-missing-attr" c .missingAttr)
      else pure (mkSafeX id s!"safecall/{rep}/arg-expr-fails" c .otherErr)
    else pure (mkSafe id s!"safecall/{rep}/{ak}" c a)
  else if kind < 10 then do
    if (← chance 1 2) then do
      let (c, rep) ← genKeyed
      let (a, ak) ← genArgFor c
      pure (mkPlainCall id s!"plaincall/{rep}/{ak}" c a)
    else do
      -- a collection of collections, two call tails
      let n ← rand 4
      let inner ← genList n (do
        let r ← rand 4
        if r == 3 then do pure (Lit.num (← randInt 0 3))
        else if r == 0 then do pure (Lit.str 0 (← genCs))
        else if r == 1 then do pure (Lit.arr 0 ((← genList (← rand 3) genElem).map some))
        else do pure (Lit.dict (Lit.dedupBy (fun kv => kv.1.den) (← genList (← rand 3) (do pure ((← pick keyPool), (← genElem)))))))
      let c := CE.arr (← genOffC) (← Lit.withHoles inner)
      let (i, ik) ← genArgFor c
      let j ← pick ([ArgL.lit (.num 0), .lit (.num 1), .lit (.num 5), .frac 0] ++ keyPool.map ArgL.lit)
      let safe1 ← chance 1 2
      pure (mkChain id s!"safechain/{if safe1 then "safe" else "plain"}/{ik}" c safe1 i j)
  else if kind < 14 then do
    let (c, rep) ← genKeyed
    let withAt ← chance 1 3
    let t ← genTr withAt c
    let e := CE.arrow withAt t c
    let op := if withAt then "seqarrow3" else "seqarrow"
    if (← chance 1 3) then do
      let (a, ak) ← genArgFor e
      pure (mkCall id s!"{op}+call/{rep}/{t.name}/{ak}" e a)
    else pure (mkValue id s!"{op}/{rep}/{t.name}" e)
  else if kind < 17 then do
    -- `++` over all pairs of kinds, offset / sparse operands included
    let ka ← genSK
    let kb ← genSK
    let ra ← rand 8
    let (a, ha) ← if ra == 0 then genJoinRel
      else if ra == 1 then do pure ((CE.union (← genDictLit) (← genDictLit)), "dict-union")   -- Dict.Count of multi-valued keys
      else if ra == 2 || ra == 3 then do
        -- an offset (maybe nested) over an operand with holes: the count must survive the offset
        let (h, how) ← genHoley ka
        let e := CE.offset (.lit (.num (← pick [-1, 1, 3, -2]))) h
        let e ← if (← chance 1 3) then do pure (CE.offset (.lit (.num (← pick [-1, 2]))) e) else pure e
        pure (e, s!"offset-{how}")
      else genSeq ka
    let r ← rand 6
    let (b, hb) ← if r == 0 then do pure ((← genDictLit), "dict") else if r == 1 then genJoinRel else genSeq kb
    let e := CE.concat a b
    if (← chance 1 4) then do
      let (x, ak) ← genArgFor e
      pure (mkSafe id s!"concat+safecall/{ka.name}-{ha}/{kb.name}-{hb}/{ak}" e x)
    else pure (mkValue id s!"concat/{ka.name}-{ha}/{kb.name}-{hb}" e)
  else if kind < 19 then do
    let k ← genSK
    let (c, how) ← if (← chance 1 8) then genKeyed else genSeq k
    let n ← genOffsetArg
    let e := CE.offset n c
    let e ← if (← chance 1 3) then do pure (CE.offset (← genOffsetArg) e) else pure e
    if (← chance 1 3) then do
      let (x, ak) ← genArgFor e
      pure (mkCall id s!"offset+call/{k.name}-{how}/{ak}" e x)
    else pure (mkValue id s!"offset/{k.name}-{how}" e)
  else do
    -- sets that are not keyed: a foreign member makes a call an error of class `other` (no fallback),
    -- `true` answers like the empty set; `>>` is an error
    let c ← pick [CE.tt, .plain [.num 1, .num 2], .union (.str 0 [97, 98]) (.plain [.num 5]),
                  .union (.str 0 [97, 98]) .tt, .plain [.tup [("@", .num 1)]],
                  .plain [.tup [("@", .num 1), ("a", .num 2), ("b", .num 3)]],
                  .union (.str 0 [97, 98]) (.plain [.tup [], .num 5]), .plain [.tup [("a", .num 1)]],
                  .union (.dict [(.num 1, .num 2)]) .tt, .union (.arr 0 [some (.num 7)]) (.plain [.tup [("a", .num 1)]]),
                  .union .tt (.plain [.tup [("a", .num 1)]]), .plain [.str 0 [97], .num 0]]
    let r ← rand 3
    let k ← pick [ArgL.lit (.num 0), .lit (.num 1), .lit (.num 5), .frac 0, .lit (.str 0 [120])]
    if r == 0 then pure (mkCall id "nonkeyed/call" c k)
    else if r == 1 then pure (mkSafe id "nonkeyed/safecall" c k)
    else pure (mkValue id "nonkeyed/seqarrow" (.arrow false .ident c))

/-- the rows of a join-built relation as literals (for writing the same collection another way) -/
def joinRowsL : CE → List (Lit × Lit)
  | .compose _ _ ak kv =>
    ak.flatMap (fun a => kv.filterMap (fun b => if a.2.den = b.1.den then some (a.1, b.2) else none))
  | .cross _ _ ks vs => ks.flatMap (fun k => vs.map (fun v => (k, v)))
  | _ => []
def joinName : CE → String
  | .compose _ n _ _ => n
  | .cross _ n _ _ => n
  | _ => ""

def intKeys (rows : List (Lit × Lit)) : Option (List (Int × Lit)) :=
  rows.mapM (fun r => match r.1 with | .num i => some (i, r.2) | _ => none)

/-- the same collection written as a dict / array literal when it is one, else as a set of pairs or
a relation literal -/
def literalTwin (c : CE) : Gen (CE × String) := do
  let rows := Lit.dedupBy (fun r => V.mkArr [r.1.den, r.2.den]) (joinRowsL c)
  let name := joinName c
  let distinct := (Lit.dedupBy (fun r => r.1.den) rows).length == rows.length
  if name == "@value" && distinct && (← chance 2 3) then pure (.dict rows, "dict-literal")
  else if name == "@item" && distinct && !rows.isEmpty && (← chance 2 3) then
    match intKeys rows with
    | some iks =>
      let lo := iks.foldl (fun m t => min m t.1) (iks.headD (0, .num 0)).1
      let hi := iks.foldl (fun m t => max m t.1) lo
      let slots := (List.range (hi - lo + 1).toNat).map (fun j => (iks.find? (fun t => t.1 == lo + Int.ofNat j)).map (·.2))
      pure (.arr lo slots, "array-literal")
    | none => pure (.pairs (rows.map (fun r => (r.1, name, r.2))), "pairs-literal")
  else if (name == "a" || name == "$a") && !rows.isEmpty && (← chance 1 2) then
    pure (.relLit (← chance 1 2) name rows, "rel-literal")
  else pure (.pairs (rows.map (fun r => (r.1, name, r.2))), "pairs-literal")

/-- harness op `relshape`: the physical column of `@` in a Relation (model fidelity only: the
specification does not care, so a difference is counted as drift) -/
def mkShape (id : String) (c : CE) : List Case :=
  match c.impl with
  | .ok (.one (.rel atFirst _ _)) =>
    [{ id := id, cls := "good", kind := "relshape", stratum := "relshape",
       model := if atFirst then "at=0" else "at=1", spec := "!panic", payload := [c.src] }]
  | _ => []

/-- representation independence: a join-built relation and the same collection written as a literal
get the same argument; both must answer as the specification says (hence identically) -/
def genRepIndep (idx : Nat) : Gen (List Case) := do
  let id := s!"C05-{idx}"
  let (c, rep) ← genJoinRel
  let (twin, how) ← literalTwin c
  let (a, ak) ← genArgFor c
  let r ← rand 4
  let both (f : String → String → CE → Case × Option CE) : List (Case × Option CE) :=
    [f (id ++ "r") s!"repindep/{rep}/{ak}" c, f (id ++ "t") s!"repindep/{how}/{ak}" twin]
  let cases : List (Case × Option CE) :=
    if r == 0 then both (fun i st x => mkSafe i st x a)
    else if r == 1 then
      both (fun i st x => mkValue i (st ++ "/seqarrow") (.arrow true .keyOnly x))
    else both (fun i st x => mkCall i st x a)
  pure (cases.map (·.1) ++ mkShape (id ++ "s") c ++ (if (← chance 1 3) then mkShape (id ++ "u") twin else []))

/-- witnesses of the repaired defects and of the known findings; always run first -/
def corpusP : List (Case × Option CE) :=
  let ab := CE.str 0 [97, 98]
  let holey := CE.concat ab (.offset (.lit (.num 3)) (.str 0 [100]))       -- 'ab' ++ (3\'d')
  [ mkCall "C05-corpus-0" "corpus/hole-call" holey (.lit (.num 2)),
    mkSafe "C05-corpus-1" "corpus/hole-safecall" holey (.lit (.num 2)),
    mkValue "C05-corpus-2" "corpus/hole-seqarrow" (.arrow false .plus1 holey),
    mkValue "C05-corpus-3" "corpus/neg-char" (.arrow false .neg1 ab),
    mkValue "C05-corpus-4" "corpus/frac-offset" (.offset (.frac 1) ab),
    mkValue "C05-corpus-5" "corpus/lone-at" (.arrow false .ident (.plain [.tup [("@", .num 1)]])),
    mkValue "C05-corpus-6" "corpus/three-attrs"
      (.arrow false .ident (.plain [.tup [("@", .num 1), ("a", .num 2), ("b", .num 3)]])),
    mkValue "C05-corpus-7" "corpus/superimposed" (.concat (.offset (.lit (.num 2)) ab) (.str 0 [99, 100])),
    mkCall "C05-corpus-8" "corpus/bytes-gap"
      (.pairs [(.num 0, "@byte", .num 1), (.num 2, "@byte", .num 3)]) (.lit (.num 1)),
    mkCall "C05-corpus-9" "corpus/dup-key" (.union (.dict [(.num 1, .num 2)]) (.dict [(.num 1, .num 3)])) (.lit (.num 1)),
    mkSafe "C05-corpus-10" "corpus/dup-key-safe" (.union (.dict [(.num 1, .num 2)]) (.dict [(.num 1, .num 3)])) (.lit (.num 1)),
    mkCall "C05-corpus-11" "corpus/same-value-twice"
      (.pairs [(.num 1, "a", .num 2), (.num 1, "b", .num 2)]) (.lit (.num 1)),
    mkValue "C05-corpus-12" "corpus/offset-compose"
      (.offset (.lit (.num 1)) (.offset (.lit (.num 2)) ab)),
    -- relations whose `@` is physically the last column (composition with the @ side on the right,
    -- cross product, a name sorting before `@`): the call returns the value, not the key
    mkCall "C05-corpus-14" "corpus/rel-at-last-compose"
      (.compose false "a" [(.num 1, .num 2)] [(.num 2, .num 30)]) (.lit (.num 1)),
    mkCall "C05-corpus-15" "corpus/rel-at-last-toomany"
      (.compose false "a" [(.num 1, .num 2), (.num 1, .num 3)] [(.num 2, .num 30), (.num 3, .num 31)]) (.lit (.num 1)),
    mkCall "C05-corpus-16" "corpus/rel-at-last-cross" (.cross false "a" [.num 1] [.num 30, .num 31]) (.lit (.num 1)),
    mkCall "C05-corpus-17" "corpus/rel-name-before-at" (.relLit true "$a" [(.num 1, .num 30)]) (.lit (.num 1)),
    mkSafe "C05-corpus-18" "corpus/rel-at-last-safe"
      (.compose false "$a" [(.num 1, .num 2)] [(.num 2, .num 30)]) (.lit (.num 30)),
    -- an offset over a string / array with a middle hole keeps count, equality and the next `++` right
    mkValue "C05-corpus-24" "corpus/offset-holey-str" (.offset (.lit (.num 1)) (.whereNe (.str 0 [97, 98, 99, 100]) 1)),
    mkValue "C05-corpus-25" "corpus/offset-holey-concat"
      (.concat (.offset (.lit (.num (-1))) (.whereNe (.str 0 [97, 98, 99, 100]) 1)) (.str 0 [120])),
    mkValue "C05-corpus-26" "corpus/offset-holey-arr"
      (.offset (.lit (.num 2)) (.without (.arr 0 [some (.num 1), some (.num 2), some (.num 3)]) (.num 1) "@item" (.num 2))),
    mkValue "C05-corpus-27" "corpus/offset-nested-holey"
      (.offset (.lit (.num 2)) (.offset (.lit (.num (-3))) (.whereNe (.whereNe (.str 0 [97, 98, 99, 100, 101]) 1) 3))),
    mkSafeX "C05-corpus-19" "corpus/safecall-arg-missing-attr" (.str 0 [97, 98, 99]) .missingAttr,
    mkSafeX "C05-corpus-20" "corpus/safecall-arg-fails" (.str 0 [97, 98, 99]) .otherErr,
    mkCall "C05-corpus-21" "corpus/nonkeyed-true" .tt (.lit (.num 1)),
    mkCall "C05-corpus-22" "corpus/nonkeyed-true-union" (.union (.str 0 [97, 98]) .tt) (.lit (.num 1)),
    mkSafe "C05-corpus-23" "corpus/nonkeyed-foreign-no-fallback" (.union (.str 0 [97, 98]) (.plain [.num 5])) (.lit (.num 7)),
    -- the same member reaches the builder twice: the count of the result must still be 2
    mkValue "C05-corpus-13" "corpus/dup-member-count"
      (.concat (.concat ab (.offset (.lit (.num (-1))) (.str 0 [98]))) (.str 0 [120])) ]

def corpus : List Case := corpusP.flatMap (fun p =>
  p.1 :: (match p.2 with | some c => mkObs p.1.id p.1.stratum c | none => []))

def gen (seed n : Nat) (_thorough : Bool) : List Case := Id.run do
  let mut out := corpus.reverse
  for i in [0:n] do
    let ((c, ce), _) := (genCase i).run (seedOf seed (500000 + i))
    out := c :: out
    -- value-rooted programs always, called collections every third time
    match ce with
    | some e =>
      if c.payload.length == 1 && c.kind == "eval" && c.payload.head? == some e.src || i % 3 == 0 then
        out := (mkObs c.id c.stratum e).reverse ++ out
    | none => pure ()
    if i % 6 == 0 then
      let (cs, _) := (genRepIndep i).run (seedOf seed (900000 + i))
      out := cs.reverse ++ out
  pure out.reverse

end Arrai.C05
