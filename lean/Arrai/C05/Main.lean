import Arrai.Core.DriverMain
import Arrai.C05.Gen

def main (args : List String) : IO UInt32 := Arrai.driverMain Arrai.C05.gen args
