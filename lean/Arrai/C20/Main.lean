import Arrai.Core.DriverMain
import Arrai.C20.Gen

def main (args : List String) : IO UInt32 := Arrai.driverMain Arrai.C20.gen args
