/-
  C20 case generator: directory layouts (nested, hidden directories, non-test files, several
  test files) whose test files are arr.ai programs evaluating to generated result trees,
  with the run predicted by the transliteration (`Impl.runTests`) and the run the
  specification demands (`Spec.run`), both rendered as canonical text.
-/
import Arrai.Core.Canon
import Arrai.C20.Model

namespace Arrai.C20
open Arrai

def s2n (s : String) : Name := s.toList
def n2s (n : Name) : String := String.ofList n

/-! ## rendering a run as the canonical observable -/

def label : Outcome → String
  | .passed => "PASS"
  | .failed => "FAIL"
  | .invalid => "INVALID"
  | .ignored => "SKIP"

/-- `relPath` with the working directory "/" -/
def relFile (p : Name) : String := n2s (match p with | '/' :: r => r | q => q)

def obsRun : Run → String
  | .error .walk => "error:walk"
  | .error .noFiles => "error:nofiles"
  | .error (.file p) => "error:file:" ++ n2s p
  | .error .crash => "panic"
  | .reported files st =>
    let lines := files.flatMap (fun f => f.results.map (fun r => relFile f.path ++ "|" ++ n2s r.name ++ "|" ++ label r.outcome))
    let summary := s!"failed={st.failed} invalid={st.invalid} ignored={st.ignored} passed={st.passed} total={st.total}"
    "\n".intercalate ((if st.runFailed then "fail" else "pass") :: sortStrs lines ++ [summary])

/-! ## result trees -/

structure Cfg where
  allTrue : Bool      -- every leaf is the literal true
  allowFail : Bool    -- a leaf may fail to evaluate
  weird : Bool        -- attribute names may be empty or start with a dot (known finding)
  depth : Nat

def genLeaf (cfg : Cfg) : Gen Leaf := do
  if cfg.allTrue then pure .trueSet
  else
    let r ← rand 40
    if r < 20 then pure .trueSet
    else if r < 27 then pure .emptySet
    else if r < 32 then pure .other
    else if r < 34 then pure .func
    else if r < 39 then pure (.genericSet .proper)
    else if cfg.allowFail then pure .fails
    else pure .other

/-- a random sub-list (in order) of a pool: every element with probability num/den -/
def subset {α} (pool : List α) (num den : Nat) : Gen (List α) := do
  let mut out := []
  for x in pool do
    if ← chance num den then out := x :: out
  pure out.reverse

/-- attribute names, dictionary keys (and file names below) include 2-, 3- and 4-byte characters, long names,
spaces and quotes: the report's column widths (runes vs bytes) and sorting depend on them -/
def attrPool : List String :=
  ["a", "b", "test1", "x_y", "c", "größe", "ärger", "日本語", "😀x", "with space", "it's", "say \"hi\"",
   "a_long_attribute_name_that_goes_on_and_on_and_on", "ñ"]
def weirdPool : List String := ["", ".x", "a", "b"]
def keyPool : List Key :=
  [.num 1, .num 2, .num (-1), .num 10, .str (s2n "k"), .str (s2n "k2"), .str (s2n "a b"),
   .other (s2n "(x: 3)"), .other (s2n "(y: 'q')"), .str (s2n "größe"), .str (s2n "ärger"), .str (s2n "ok"),
   .str (s2n "日本"), .str (s2n "😀"), .str (s2n "it's"), .str (s2n "say \"hi\""),
   .str (s2n "a long key that goes on and on and on and on"), .num 100]

def genOffset : Gen Int := do
  let r ← rand 10
  if r < 5 then pure 0 else pick [1, 2, 5, 17, -1, -3]

/-- holes only strictly inside: the first and the last item are present (arr.ai trims the ends) -/
def holesInside (xs : List Tree) (holes : List Bool) : List (Option Tree) :=
  let n := xs.length
  (xs.zip holes).zipIdx.map (fun ((t, h), i) => if h && i != 0 && i + 1 != n then none else some t)

/-- values of different classes are different arr.ai values (arrays here are never empty) -/
def treeClass : Tree → Nat
  | .leaf .trueSet => 0
  | .leaf .emptySet => 1
  | .leaf (.genericSet _) => 2
  | .leaf .other => 3
  | .leaf .fails => 4
  | .leaf .func => 8
  | .tup _ => 5
  | .arr _ _ => 6
  | .dict _ => 7

/-- a small tree of a class not in `used` (all leaves true when `cfg.allTrue`) -/
def freshClass (cfg : Cfg) (used : List Nat) : Gen Tree := do
  let lt := Tree.leaf .trueSet
  let cands : List Tree :=
    if cfg.allTrue then [.tup [], .arr 0 [some lt], lt, .dict [(.num 0, lt)], .tup [(s2n "a", lt)]]
    else [.leaf .emptySet, lt, .leaf .other, .leaf (.genericSet .proper), .tup [], .arr 1 [some (.leaf .emptySet)],
          .dict [(.num 0, .leaf .emptySet)]]
  let k ← rand cands.length
  let rot := cands.drop k ++ cands.take k
  pure ((rot.find? (fun t => !used.contains (treeClass t))).getD (.tup []))

def genTree (cfg : Cfg) : Nat → Gen Tree
  | 0 => do pure (.leaf (← genLeaf cfg))
  | d + 1 => do
    let r ← rand 12
    if r < 3 then pure (.leaf (← genLeaf cfg))
    else if r < 7 then
      let special ← chance 1 12
      if special && !cfg.allTrue then
        -- a specialised tuple (@: 7, @item: t): still a tuple, hence a container (its index is a number leaf)
        let t ← genTree cfg d
        pure (.tup [(s2n "@", .leaf .other), (s2n "@item", t)])
      else
        let names ← if cfg.weird then subset weirdPool 1 2 else subset attrPool 1 7
        let mut as := []
        for n in names do
          as := (s2n n, ← genTree cfg d) :: as
        pure (.tup as.reverse)
    else if r < 10 then
      let n ← rand 4
      let xs ← genList (n + 1) (genTree cfg d)
      let holes ← genList (n + 1) (chance 1 3)
      pure (.arr (← genOffset) (holesInside xs holes))
    else
      let ks ← subset keyPool 1 8
      let ks := if ks.isEmpty then [Key.num 0] else ks
      let mut es := []
      for k in ks do
        -- a dictionary may hold several values under one key ({k: v} | {k: v'}): every (key, value) pair is
        -- a member.  Values under one key are of pairwise different classes, hence different values.
        let mut vals := [← genTree cfg d]
        for _ in [0:2] do
          if ← chance 1 4 then
            let t ← genTree cfg d
            let used := vals.map treeClass
            let t ← if used.contains (treeClass t) then freshClass cfg used else pure t
            vals := t :: vals
        for v in vals.reverse do
          es := (k, v) :: es
      pure (.dict es.reverse)

/-! ## printing a tree as arr.ai source -/

def trueSpellings : List String :=
  ["true", "true", "{()}", "(1 = 1)", "({(), 1} where . = ())", "//test.assert.equal(1, 1)", "(2 > 1)"]
def falseSpellings : List String :=
  ["false", "false", "{}", "[]", "''", "(1 = 2)", "({1} where . = 2)"]
def genericSpellings : List String :=
  ["{1, 2}", "{true}", "{false}", "{[true]}", "{{}, {()}}", "{3}"]
def otherSpellings : List String :=
  ["42", "0", "1", "-1.5", "'abc'", "'true'", "<<1, 2>>", "{(a: true)}", "{|a| (1), (2)}",
   "2\\'ab'", "{'a', 1}", "//math.pi", "{(a: 1), 2}"]
def failSpellings : List String :=
  ["//test.assert.equal(1, 2)", "(\\x x.y)(1)", "(c: 1).d", "[1](5)", "nope", "//test.assert.true(false)"]

def printLeaf : Leaf → Gen String
  | .trueSet => pick trueSpellings
  | .emptySet => pick falseSpellings
  | .genericSet _ => pick genericSpellings
  | .other => pick otherSpellings
  | .func => pick ["\\x x", "\\x (a: x)", "\\x \\y x"]
  | .fails => pick failSpellings

def isIdent (n : Name) : Bool :=
  !n.isEmpty && n.all (fun c => c.isAlphanum || c == '_') && !(n.head?.map Char.isDigit).getD false

/-- a string literal: single quotes, double quotes when the text contains a single quote -/
def quoteSrc (n : Name) : String :=
  if n.contains '\'' then "\"" ++ n2s n ++ "\"" else "'" ++ n2s n ++ "'"

def attrSrc (n : Name) : String :=
  if isIdent n || n == s2n "@" || n == s2n "@item" then n2s n else quoteSrc n

def keySrc : Key → String
  | .num i => toString i
  | .str s => quoteSrc s
  | .other r => n2s r

/-- first occurrence of every key / the remaining entries -/
def splitLayer : List Key → List (Key × String) → List (Key × String) × List (Key × String)
  | _, [] => ([], [])
  | seen, (k, v) :: r =>
    if seen.contains k then
      let (a, b) := splitLayer seen r
      (a, (k, v) :: b)
    else
      let (a, b) := splitLayer (k :: seen) r
      ((k, v) :: a, b)

def layersOf : Nat → List (Key × String) → List (List (Key × String))
  | 0, _ => []
  | _, [] => []
  | n + 1, es =>
    let (a, b) := splitLayer [] es
    a :: layersOf n b

/-- a dictionary as source: `{k: v, …}`, a union of such literals when a key has several values,
or (asSet) the set of its `(@: k, @value: v)` members -/
def dictSrc (es : List (Key × String)) (asSet : Bool) : String :=
  if asSet then "{" ++ ", ".intercalate (es.map (fun (k, v) => "(@: " ++ keySrc k ++ ", @value: " ++ v ++ ")")) ++ "}"
  else
    let lit (l : List (Key × String)) := "{" ++ ", ".intercalate (l.map (fun (k, v) => keySrc k ++ ": " ++ v)) ++ "}"
    match layersOf es.length es with
    | [l] => lit l
    | ls => "(" ++ " | ".intercalate (ls.map lit) ++ ")"

mutual
def printTree : Tree → Gen String
  | .leaf l => printLeaf l
  | .tup as => do
    let parts ← printAttrs as
    pure ("(" ++ ", ".intercalate parts ++ ")")
  | .arr off items => do
    let parts ← printItems items
    let body := "[" ++ ", ".intercalate parts ++ "]"
    pure (if off = 0 then body else s!"{off}\\{body}")
  | .dict es => do
    let parts ← printEntries es
    let asSet ← chance 1 6
    pure (dictSrc parts asSet)
def printAttrs : List (Name × Tree) → Gen (List String)
  | [] => pure []
  | (n, t) :: r => do
    -- the index of a specialised (@: n, @item: t) tuple must be a number
    let s ← if n == s2n "@" then pure "7" else printTree t
    let rest ← printAttrs r
    pure ((attrSrc n ++ ": " ++ s) :: rest)
def printItems : List (Option Tree) → Gen (List String)
  | [] => pure []
  | none :: r => do
    let rest ← printItems r
    pure ("" :: rest)
  | some t :: r => do
    let s ← printTree t
    let rest ← printItems r
    pure (s :: rest)
def printEntries : List (Key × Tree) → Gen (List (Key × String))
  | [] => pure []
  | (k, t) :: r => do
    let s ← printTree t
    let rest ← printEntries r
    pure ((k, s) :: rest)
end

def brokenSources : List String := ["nope", "true true", "invalid arr.ai code", "$$$", "(a: true) b"]
def garbage : List String := ["not arr.ai {{{", "", "# notes", "(a: "]

/-! ## directory layouts -/

/-! Names probe the discovery rule of getTestFiles: a FILE is a test file iff its path ends in
`_test.arrai` (case sensitive; hidden files included: only directories are tested for the dot);
a DIRECTORY is skipped iff its name starts with '.', every other name is walked. -/

/-- file names that are test files -/
def testNames : List String :=
  ["a_test.arrai", "b_test.arrai", "broken_test.arrai", "m_test.arrai", "z_test.arrai", "_test.arrai", "__test.arrai",
   ".a_test.arrai", ".h_test.arrai", "x.y_test.arrai", "my test_test.arrai", "a-b_test.arrai", "é_test.arrai",
   "größe_test.arrai", "日本語_test.arrai", "😀_test.arrai", "a_very_long_file_name_that_goes_on_and_on_and_on_test.arrai",
   "testdata_test.arrai", "_wip_test.arrai", "A_test.arrai", "a_test.arrai_test.arrai"]
/-- file names that are not -/
def otherNames : List String :=
  ["helper.arrai", "test.arrai", "a_test.arrai.txt", "a_test.arrai.bak", "a_test.arrai~", "x_test.arra", "README.md",
   "_test.arrai.bak", "atest.arrai", "a_test_arrai", "A_TEST.ARRAI", "a_Test.arrai", "a_test.ARRAI", "a_test.arraii",
   "a_test.arrai ", "_test", "a_test.arrai.d", "é_test.arrái"]
/-- directories that are walked, whatever other tools think of them -/
def probeDirs : List String :=
  ["_wip", "testdata", "vendor", "node_modules", "_", "__x", "_old", "Testdata", "test", "tests"]
def plainDirs : List String :=
  ["sub", "pkg", "deep", "a", "x.d", "z.d", "d_test.arrai", "_test.arrai", "my dir", "a-b", "über", "x..y", "a.", "~tmp"]
/-- directories that are skipped: exactly the names starting with a dot -/
def hiddenDirs : List String := [".git", ".hidden", ".h_test.arrai", "..x", "._wip", ".testdata", ". "]

/-- content of a file: `none` = does not compile -/
def genContent (cfg : Cfg) (broken : Nat) : Gen (Option Tree) := do
  if ← chance broken 100 then pure none
  else pure (some (← genTree cfg cfg.depth))

def insertNode (n : Node) : List Node → List Node
  | [] => [n]
  | m :: r => if n2s n.name < n2s m.name then n :: m :: r else m :: insertNode n r

/-- the listing of a directory as `readDirNames` returns it -/
def sortNodes (ns : List Node) : List Node := ns.foldr insertNode []

def hasName (n : String) (ns : List Node) : Bool := ns.any (fun m => m.name == s2n n)

/-- `visible = false`: below a hidden directory, where nothing must be picked up — fill it with failures.
`force`: at least one test file directly in this directory. -/
def genDir (cfg : Cfg) (broken : Nat) (name : String) (visible : Bool) (force : Bool := false) : Nat → Gen Node
  | 0 => do
    let tests ← subset testNames 1 13
    let tests ← if force && tests.isEmpty then (do pure [← pick testNames]) else pure tests
    let others ← subset otherNames 1 14
    let mut out := []
    for f in tests do
      let c ← genContent (if visible then cfg else { cfg with allTrue := false }) (if visible then broken else 30)
      out := Node.file (s2n f) c :: out
    for f in others do
      let c ← genContent { cfg with allTrue := false, allowFail := true } 40
      out := Node.file (s2n f) c :: out
    pure (.dir (s2n name) (sortNodes out))
  | d + 1 => do
    let tests ← subset testNames 1 13
    let tests ← if force && tests.isEmpty then (do pure [← pick testNames]) else pure tests
    let others ← subset otherNames 1 14
    let plain ← subset plainDirs 1 12
    let probe ← subset probeDirs 1 8
    let hidden ← subset hiddenDirs 1 9
    let mut out := []
    for f in tests do
      let c ← genContent (if visible then cfg else { cfg with allTrue := false }) (if visible then broken else 30)
      out := Node.file (s2n f) c :: out
    for f in others do
      -- never read: may be garbage or a failing test tree
      let c ← genContent { cfg with allTrue := false, allowFail := true } 40
      out := Node.file (s2n f) c :: out
    for dn in plain do
      if !hasName dn out then
        out := (← genDir cfg broken dn visible false d) :: out
    for dn in probe do
      -- walked like any other directory: always holds a test file, so skipping it changes the report
      out := (← genDir cfg broken dn visible true d) :: out
    for dn in hidden do
      if !hasName dn out then
        out := (← genDir cfg broken dn false true d) :: out
    pure (.dir (s2n name) (sortNodes out))

def findChild (name : Name) : List Node → Option Node
  | [] => none
  | c :: r => if c.name == name then some c else findChild name r

def descend : Node → List Name → Option Node
  | n, [] => some n
  | .dir _ ch, c :: r =>
    match findChild c ch with
    | some n => descend n r
    | none => none
  | .file _ _, _ :: _ => none

def components (p : Name) : List Name :=
  ((n2s p).splitOn "/").filter (· ≠ "") |>.map s2n

/-- the source file system as `lstat` sees it -/
def lstatOf (root : Node) (p : Name) : Option Node :=
  if p.head? == some '/' then descend root (components p) else none

mutual
/-- all files and directories for the harness: (path, content) / (path ++ "/", "") -/
def listNode : Node → Name → Gen (List String)
  | .file _ c, path => do
    let src ← match c with
      | some t => printTree t
      | none => if isTestPath path then pick brokenSources else pick garbage
    pure [n2s path, src]
  | .dir _ ch, path => do
    let rest ← listNodes ch path
    pure ((n2s path ++ "/") :: "" :: rest)
def listNodes : List Node → Name → Gen (List String)
  | [], _ => pure []
  | c :: r, path => do
    let a ← listNode c (joinPath path c.name)
    let b ← listNodes r path
    pure (a ++ b)
end

/-- a random existing path below `n` -/
def randomDescent : Nat → Node → Name → Gen Name
  | 0, _, path => pure path
  | d + 1, n, path =>
    match n with
    | .file _ _ => pure path
    | .dir _ ch => do
      if ch.isEmpty then pure path
      else
        let c ← pick ch
        if ← chance 1 3 then pure (joinPath path c.name)
        else randomDescent d c (joinPath path c.name)

/-! ## cases -/

def treeNamesOk : Option Tree → Bool
  | some t => Spec.namesOk t
  | none => true

def classOf (w : World) (target : Name) : String :=
  match w.lstat (Impl.targetPath w target) with
  | none => "good"
  | some n =>
    let files := Impl.walk n (Impl.targetPath w target)
    if !files.all (fun f => treeNamesOk f.content) then "KF-c20-dotted-attr-name" else "good"

def mkCase (id stratum : String) (root : Node) (target : Name) (files : List String) : Case :=
  let w : World := { cwd := ['/'], lstat := lstatOf root }
  let m := obsRun (Impl.runTests w target)
  let s := obsRun (Spec.run w target)
  let kind := (s.splitOn "\n").headD "" |>.splitOn ":" |>.take 2 |> ":".intercalate
  let multi := match w.lstat (Impl.targetPath w target) with
    | some n => (Impl.walk n (Impl.targetPath w target)).any
        (fun f => match f.content with | some t => !Spec.wf t | none => false)
    | none => false
  { id := id, cls := classOf w target, kind := "runtests", stratum := stratum ++ kind ++ (if multi then "+multikey" else ""),
    model := m, spec := s, payload := n2s target :: files }

def genCase (idx : Nat) (thorough : Bool) : Gen Case := do
  let mode ← rand 20
  let allTrue := mode < 9
  let weird := mode == 19
  let cfg : Cfg := { allTrue := allTrue, allowFail := !allTrue && mode % 3 == 0, weird := weird,
                     depth := if thorough && mode % 4 == 1 then 4 else 3 }
  let broken := if allTrue then (if mode == 0 then 8 else 0) else 5
  let depth ← rand 3
  let t ← genDir cfg broken "t" true (← chance 9 10) depth
  let extra ← chance 1 4
  let top ← if extra then do
      let o ← genDir { cfg with allTrue := false } 20 "other" true false 1
      pure [o, t]
    else pure [t]
  let root := Node.dir ['/'] top
  let r ← rand 100
  let target ←
    if r < 62 then pure (s2n "/t")
    else if r < 80 then randomDescent 3 t (s2n "/t")
    else if r < 85 then pure []
    else if r < 88 then pure ['.']
    else if r < 92 then pure ['/']
    else if r < 96 then pure (s2n "/nowhere")
    else pure (s2n "/t/missing_test.arrai")
  let files ← listNodes top ['/']
  let strat := (if allTrue then "alltrue/" else if weird then "weird/" else "mixed/")
  pure (mkCase s!"C20-{idx}" strat root target files)

/-- minimised past failures and the witnesses of repaired defects; always run first -/
def corpus : List Case :=
  let lt := Tree.leaf .trueSet
  let lf := Tree.leaf .emptySet
  let file (n : String) (t : Tree) := Node.file (s2n n) (some t)
  let dir (n : String) (ch : List Node) := Node.dir (s2n n) (sortNodes ch)
  let mk (i : Nat) (t : Node) (target : String) : Case :=
    let root := Node.dir ['/'] [t]
    let (files, _) := (listNodes [t] ['/']).run (seedOf 7 i)
    mkCase s!"C20-corpus-{i}" "corpus/" root (s2n target) files
  [ -- repaired: holes of a sparse array reached the leaf action as nil (crash)
    mk 0 (dir "t" [file "a_test.arrai" (.tup [(s2n "a", .arr 0 [some lt, none, some lt])])]) "/t",
    -- repaired: indices ignored the offset of the array
    mk 1 (dir "t" [file "a_test.arrai" (.tup [(s2n "a", .arr 2 [some lt, some lf])])]) "/t",
    mk 2 (dir "t" [file "a_test.arrai" (.arr (-3) [some lt, none, none, some (.arr 5 [some lt])])]) "/t",
    -- hidden directories are skipped, nested ones are found
    mk 3 (dir "t" [file "a_test.arrai" lt, dir ".h" [file "b_test.arrai" lf],
                   dir "must" [dir "go" [file "c_test.arrai" (.tup [(s2n "x", lt)])], dir ".go" [file "d_test.arrai" lf]]]) "/t",
    -- no test files
    mk 4 (dir "t" [file "helper.arrai" lf, dir ".h" [file "b_test.arrai" lt]]) "/t",
    -- the first unevaluable file (walk order) is reported
    mk 5 (dir "t" [file "a_test.arrai" lt, Node.file (s2n "b_test.arrai") none,
                   file "c_test.arrai" (.tup [(s2n "x", .leaf .fails)])]) "/t",
    -- sets and relations are leaves, not containers
    mk 6 (dir "t" [file "a_test.arrai" (.tup [(s2n "s", .leaf (.genericSet .proper)), (s2n "r", .leaf .other),
                   (s2n "d", .dict [(.str (s2n "k"), lt), (.other (s2n "(x: 3)"), lf)])])]) "/t",
    -- known finding: an empty attribute name disappears from the path
    mk 7 (dir "t" [file "a_test.arrai" (.tup [([], .tup [(s2n "b", lt)]), (s2n "b", lf)])]) "/t",
    -- the target is a file / the empty path means the working directory
    mk 8 (dir "t" [file "a_test.arrai" lt, file "b_test.arrai" lf]) "/t/a_test.arrai",
    mk 9 (dir "t" [file "a_test.arrai" (.tup [])]) "",
    -- seeded bug (round 2): members of a dictionary collected into a map keyed by path — the false value
    -- under a key that also holds true disappeared: (cases: {'a': 1 = 1, 'b': 2 = 2} | {'b': 2 = 3})
    mk 10 (dir "t" [file "a_test.arrai" (.tup [(s2n "cases",
      .dict [(.str (s2n "a"), lt), (.str (s2n "b"), lt), (.str (s2n "b"), lf)])])]) "/t",
    mk 11 (dir "t" [file "a_test.arrai" (.arr 0 [some (.dict [(.num 1, .tup []), (.num 1, .arr 0 [some lt]),
      (.num 1, .dict [(.num 2, lt), (.num 2, .leaf .other)])])])]) "/t",
    -- repaired in rel: a function and a dictionary under one key (Dict.Equal asked the closure for its Count)
    mk 12 (dir "t" [file "a_test.arrai" (.dict [(.num 1, .dict [(.num 2, lt)]), (.num 1, .leaf .func)])]) "/t",
    -- seeded bug (round 3): "ignored" directories after the go tool's rule (_x, testdata) were skipped
    mk 13 (dir "t" [file "a_test.arrai" lt, dir "_wip" [file "broken_test.arrai" lf],
      dir "testdata" [file "b_test.arrai" lf, dir "_old" [dir "deep" [file "c_test.arrai" (.tup [(s2n "x", lf)])]]],
      dir "vendor" [file "v_test.arrai" lt], dir "node_modules" [file "n_test.arrai" lt]]) "/t",
    -- only directories are tested for the dot: hidden FILES are test files; the suffix is case sensitive
    mk 14 (dir "t" [file ".a_test.arrai" lf, file "A_TEST.ARRAI" lf, file "a_test.arrai.bak" lf, file "a_test.arrai~" lf,
      file "__test.arrai" lt, dir "_test.arrai" [file "_test.arrai" lt], dir ".x" [file "a_test.arrai" lf]]) "/t",
    -- the target itself: a hidden directory is skipped, a hidden file is read, an underscore directory is walked
    mk 15 (dir "t" [dir ".h" [file "a_test.arrai" lt]]) "/t/.h",
    mk 16 (dir "t" [file ".a_test.arrai" lt, file "b_test.arrai" lf]) "/t/.a_test.arrai",
    mk 17 (dir "t" [file "a_test.arrai" lt, dir "_wip" [file "w_test.arrai" lf]]) "/t/_wip",
    -- seeded bug (round 4): report padding measured bytes against a width in runes (negative Repeat count)
    mk 19 (dir "t" [file "a_test.arrai" (.dict [(.str (s2n "größe"), lt), (.str (s2n "ärger"), lt), (.str (s2n "ok"), lt)])]) "/t",
    mk 20 (dir "t" [file "日本語_test.arrai" (.tup [(s2n "日本語", lt), (s2n "😀x", .arr 0 [some lt]), (s2n "ñ", lf)]),
      dir "über" [file "größe_test.arrai" (.tup [(s2n "it's", lt), (s2n "say \"hi\"", lt)])]]) "/t",
    mk 18 (dir "t" [dir "vis" [dir ".hid" [dir "vis2" [file "a_test.arrai" lf]], file "b_test.arrai" lt]]) "/t" ]

def gen (seed n : Nat) (thorough : Bool) : List Case := Id.run do
  let mut out := corpus.reverse
  for i in [0:n] do
    let (c, _) := (genCase i thorough).run (seedOf seed (2000000 + i))
    out := c :: out
  pure out.reverse

end Arrai.C20
