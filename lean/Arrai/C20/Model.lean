/-
  C20 — `arrai test` passes exactly when every leaf of every test file is the literal true.

  `Impl`: transliteration of pkg/test (runner.go: RunTests, getTestFiles, runFile, RunExpr;
  value_utils.go: ForeachLeaf (as repaired: array members are enumerated with their real
  index, holes are not members), isLiteralTrue, isLiteralFalse; stats.go: calcStats;
  report.go: Report's verdict).
  `Spec`: the leaves of a result tree as (structured path, leaf) pairs, navigation `Tree.subtree`,
  which files are test files (`Spec.Under`), the outcome a leaf must be given.

  Strings are `List Char` (they reduce in the kernel); text is rendered outside (Gen.lean).
  Core-only.
-/
namespace Arrai.C20

abbrev Name := List Char

/-! ## Result trees -/

/-- how many members a `rel.GenericSet` has, as far as pkg/test can tell -/
inductive GShape where
  | empty    -- Count() = 0                      (never built by rel: `{}` is `EmptySet`)
  | unit     -- Count() = 1 and Has(EmptyTuple)  (never built by rel: `{()}` is `TrueSet`)
  | proper   -- anything else
  deriving DecidableEq, Repr, Inhabited

/-- A leaf of an evaluated test tree, by the Go classes pkg/test distinguishes. -/
inductive Leaf where
  | trueSet                  -- `rel.TrueSet`: `true`, `{()}`, `1 = 1`
  | emptySet                 -- `rel.EmptySet`: `false`, `{}`, `[]`, `''`
  | genericSet (s : GShape)  -- `rel.GenericSet`: `{1, 2}`, `{true}` …  (sets are leaves, not containers)
  | other                    -- every other data value: number, string, bytes, relation, union set …
  | func                     -- a function value (`rel.Closure` …): a leaf like any other non-boolean
  | fails                    -- the sub-expression does not evaluate (the whole file then fails)
  deriving DecidableEq, Repr, Inhabited

/-- a dictionary key, by what `ForeachLeaf` does with it -/
inductive Key where
  | num (i : Int)            -- `key.String()` is the decimal number
  | str (s : Name)           -- a `rel.String`: rendered in single quotes
  | other (rendered : Name)  -- any other value, `rendered` = its `String()`
  deriving DecidableEq, Repr, Inhabited

/-- The value a test file evaluates to, in the representation pkg/test sees:
tuples (any `rel.Tuple`), arrays (`Values()` with `nil` holes, plus the offset), dictionaries,
and everything else as a leaf. -/
inductive Tree where
  | leaf (l : Leaf)
  | tup (attrs : List (Name × Tree))
  | arr (off : Int) (items : List (Option Tree))
  | dict (entries : List (Key × Tree))
  deriving Inhabited

inductive Step where
  | attr (n : Name)
  | idx (i : Int)
  | key (k : Key)
  deriving DecidableEq, Repr, Inhabited

abbrev Path := List Step

def intChars (i : Int) : Name := (toString i).toList

/-- `key.String()`, in single quotes when the key is a `rel.String` -/
def Key.chars : Key → Name
  | .num i => intChars i
  | .str s => '\'' :: (s ++ ['\''])
  | .other r => r

/-- what `ForeachLeaf` appends to the path for one step (`".%s"`, `"(%d)"`, `"(%s)"`) -/
def Step.chars : Step → Name
  | .attr n => '.' :: n
  | .idx i => '(' :: (intChars i ++ [')'])
  | .key k => '(' :: (k.chars ++ [')'])

/-- `strings.TrimPrefix(path, ".")` -/
def trimDot : Name → Name
  | '.' :: r => r
  | p => p

/-! ## Spec: leaves, navigation -/
namespace Spec

def pre (s : Step) (pl : Path × Leaf) : Path × Leaf := (s :: pl.1, pl.2)

mutual
/-- every leaf with its structured path: tuples, arrays and dictionaries are containers,
everything else is a leaf; a hole of an array is not a member, hence nothing -/
def leaves : Tree → List (Path × Leaf)
  | .leaf l => [([], l)]
  | .tup as => leavesAttrs as
  | .arr off items => leavesItems items off
  | .dict es => leavesEntries es
def leavesAttrs : List (Name × Tree) → List (Path × Leaf)
  | [] => []
  | (n, t) :: r => (leaves t).map (pre (.attr n)) ++ leavesAttrs r
def leavesItems : List (Option Tree) → Int → List (Path × Leaf)
  | [], _ => []
  | none :: r, i => leavesItems r (i + 1)
  | some t :: r, i => (leaves t).map (pre (.idx i)) ++ leavesItems r (i + 1)
def leavesEntries : List (Key × Tree) → List (Path × Leaf)
  | [] => []
  | (k, t) :: r => (leaves t).map (pre (.key k)) ++ leavesEntries r
end

def Path.chars : Path → Name
  | [] => []
  | s :: r => s.chars ++ Path.chars r

/-- the report name of a structured path: the steps one after the other, without the leading dot -/
def render (p : Path) : Name := trimDot (Path.chars p)

def lookupAttr (n : Name) : List (Name × Tree) → Option Tree
  | [] => none
  | (m, t) :: r => if n = m then some t else lookupAttr n r

def lookupItem (i : Int) : List (Option Tree) → Int → Option Tree
  | [], _ => none
  | x :: r, j => if i = j then x else lookupItem i r (j + 1)

def lookupKey (k : Key) : List (Key × Tree) → Option Tree
  | [] => none
  | (m, t) :: r => if k = m then some t else lookupKey k r

/-- navigation: the sub-tree a structured path leads to -/
def subtree : Tree → Path → Option Tree
  | t, [] => some t
  | .tup as, .attr n :: p => match lookupAttr n as with
    | some t => subtree t p
    | none => none
  | .arr off items, .idx i :: p => match lookupItem i items off with
    | some t => subtree t p
    | none => none
  | .dict es, .key k :: p => match lookupKey k es with
    | some t => subtree t p
    | none => none
  | _, _ :: _ => none

/-- navigation that does not assume distinct keys: a dictionary may hold several values under one key
(`{k: v} | {k: v'}`); every (key, value) pair is a member reached through that key.  (For tuples the
attribute names, for arrays the indices are distinct by construction of the values.) -/
inductive Reaches : Tree → Path → Tree → Prop where
  | here {t} : Reaches t [] t
  | attr {as n c p t} : (n, c) ∈ as → Reaches c p t → Reaches (.tup as) (.attr n :: p) t
  | idx {off items i c p t} : lookupItem i items off = some c → Reaches c p t →
      Reaches (.arr off items) (.idx i :: p) t
  | key {es k c p t} : (k, c) ∈ es → Reaches c p t → Reaches (.dict es) (.key k :: p) t

def distinct {α} [DecidableEq α] : List α → Bool
  | [] => true
  | a :: r => !r.contains a && distinct r

mutual
/-- attribute names of a tuple and keys of a dictionary are pairwise different -/
def wf : Tree → Bool
  | .leaf _ => true
  | .tup as => distinct (as.map Prod.fst) && wfAttrs as
  | .arr _ items => wfItems items
  | .dict es => distinct (es.map Prod.fst) && wfEntries es
def wfAttrs : List (Name × Tree) → Bool
  | [] => true
  | (_, t) :: r => wf t && wfAttrs r
def wfItems : List (Option Tree) → Bool
  | [] => true
  | none :: r => wfItems r
  | some t :: r => wf t && wfItems r
def wfEntries : List (Key × Tree) → Bool
  | [] => true
  | (_, t) :: r => wf t && wfEntries r
end

def nameOk (n : Name) : Bool := !n.isEmpty && n.head? != some '.'

mutual
/-- every attribute name is non-empty and does not start with a dot -/
def namesOk : Tree → Bool
  | .leaf _ => true
  | .tup as => namesOkAttrs as
  | .arr _ items => namesOkItems items
  | .dict es => namesOkEntries es
def namesOkAttrs : List (Name × Tree) → Bool
  | [] => true
  | (n, t) :: r => nameOk n && namesOk t && namesOkAttrs r
def namesOkItems : List (Option Tree) → Bool
  | [] => true
  | none :: r => namesOkItems r
  | some t :: r => namesOk t && namesOkItems r
def namesOkEntries : List (Key × Tree) → Bool
  | [] => true
  | (_, t) :: r => namesOk t && namesOkEntries r
end

end Spec

/-- the file evaluates: no sub-expression fails -/
def Tree.evaluates (t : Tree) : Bool := (Spec.leaves t).all (fun pl => pl.2 != .fails)

/-- the representation invariant of package rel that pkg/test relies on: a `GenericSet` is
neither empty nor `{()}` (those are `EmptySet` and `TrueSet`) -/
def Leaf.canonical : Leaf → Bool
  | .genericSet .empty => false
  | .genericSet .unit => false
  | _ => true

/-- the leaf denotes `{()}` -/
def Leaf.isTrue : Leaf → Bool
  | .trueSet => true
  | .genericSet .unit => true
  | _ => false

/-- the leaf denotes `{}` -/
def Leaf.isFalse : Leaf → Bool
  | .emptySet => true
  | .genericSet .empty => true
  | _ => false

/-! ## Outcomes, results, statistics (entities.go, stats.go) -/

inductive Outcome where
  | failed | invalid | ignored | passed
  deriving DecidableEq, Repr, Inhabited

structure Result where
  name : Name
  outcome : Outcome
  deriving DecidableEq, Repr, Inhabited

structure FileRun where
  path : Name
  results : List Result
  deriving DecidableEq, Repr, Inhabited

/-- `testStats` without the display-only fields (wallTime, maxNameLen, maxFileLen) -/
structure Stats where
  runFailed : Bool := false
  total : Nat := 0
  invalid : Nat := 0
  passed : Nat := 0
  ignored : Nat := 0
  failed : Nat := 0
  deriving DecidableEq, Repr, Inhabited

/-- the outcome the property demands for a leaf -/
def Spec.outcome (l : Leaf) : Outcome :=
  if l.isTrue then .passed else if l.isFalse then .failed else .invalid

/-! ## Directory layouts -/

/-- `content = none`: the source does not compile -/
inductive Node where
  | file (name : Name) (content : Option Tree)
  | dir (name : Name) (children : List Node)   -- children as `readDirNames` lists them (sorted)
  deriving Inhabited

def Node.name : Node → Name
  | .file n _ => n
  | .dir n _ => n

structure TestFile where
  path : Name
  content : Option Tree

/-- what RunTests sees of the outside world: the working directory and `lstat` on the source
file system (`none` = no such file or directory) -/
structure World where
  cwd : Name
  lstat : Name → Option Node

def testSuffix : Name := "_test.arrai".toList

/-- `strings.HasSuffix(path, "_test.arrai")` -/
def isTestPath (p : Name) : Bool := testSuffix.isSuffixOf p

/-- `strings.HasPrefix(info.Name(), ".")` -/
def isHidden (n : Name) : Bool := n.head? == some '.'

/-- `filepath.Join(dir, name)` for a clean `dir` -/
def joinPath (d n : Name) : Name := if d = ['/'] then '/' :: n else d ++ '/' :: n

/-- which files are test files under a target: the path ends in `_test.arrai` and no directory
from the target down to the file (both inclusive) is hidden -/
inductive Spec.Under : Node → Name → TestFile → Prop where
  | file {n c path} : isTestPath path = true → Spec.Under (.file n c) path ⟨path, c⟩
  | dir {n ch path c f} : isHidden n = false → c ∈ ch → Spec.Under c (joinPath path c.name) f →
      Spec.Under (.dir n ch) path f

inductive Err where
  | walk                 -- the target does not exist (`lstat` failed)
  | noFiles              -- "no test files (ending in '_test.arrai') were found"
  | file (path : Name)   -- "failed compiling/evaluating tests file '<path>'"
  | crash                -- isLiteralTrue's panic "true set is not of type TrueSet"
  deriving DecidableEq, Repr, Inhabited

/-- outcome of RunTests: an error before any report, or the report (and then the returned
error is non-nil exactly when `stats.runFailed`) -/
inductive Run where
  | error (e : Err)
  | reported (files : List FileRun) (stats : Stats)
  deriving Inhabited

def Run.passed : Run → Bool
  | .reported _ s => !s.runFailed
  | .error _ => false

/-! ## Impl: the Go code -/
namespace Impl

mutual
/-- `ForeachLeaf(val, path, leafAction)`: the list of `leafAction(val, path)` calls, in order -/
def foreachLeaf : Tree → Name → List (Name × Leaf)
  | .leaf l, path => [(trimDot path, l)]                       -- default:
  | .arr off items, path => foreachItems items off (trimDot path)   -- case rel.Array:
  | .dict es, path => foreachEntries es (trimDot path)          -- case rel.Dict:
  | .tup as, path => foreachAttrs as (trimDot path)             -- case rel.Tuple:
/-- `for e := v.Enumerator(); e.MoveNext();` over the members `(@: off+i, @item: item)` -/
def foreachItems : List (Option Tree) → Int → Name → List (Name × Leaf)
  | [], _, _ => []
  | none :: r, i, path => foreachItems r (i + 1) path
  | some t :: r, i, path => foreachLeaf t (path ++ (Step.idx i).chars) ++ foreachItems r (i + 1) path
/-- `for _, entry := range v.OrderedEntries()` -/
def foreachEntries : List (Key × Tree) → Name → List (Name × Leaf)
  | [], _ => []
  | (k, t) :: r, path => foreachLeaf t (path ++ (Step.key k).chars) ++ foreachEntries r path
/-- `for e := v.Enumerator(); e.MoveNext();` over the attributes -/
def foreachAttrs : List (Name × Tree) → Name → List (Name × Leaf)
  | [], _ => []
  | (n, t) :: r, path => foreachLeaf t (path ++ (Step.attr n).chars) ++ foreachAttrs r path
end

/-- `isLiteralTrue`; `none` = the panic "true set is not of type TrueSet" -/
def isLiteralTrue : Leaf → Option Bool
  | .trueSet => some true
  | .genericSet .unit => none
  | _ => some false

/-- `isLiteralFalse` -/
def isLiteralFalse : Leaf → Bool
  | .emptySet => true
  | .genericSet s => s = .empty
  | _ => false

/-- the callback of RunExpr: Passed / Failed / Invalid (never Ignored); `none` = panic -/
def outcomeOf (l : Leaf) : Option Outcome :=
  match isLiteralTrue l with
  | none => none
  | some true => some .passed
  | some false => if isLiteralFalse l then some .failed else some .invalid

/-- `results = append(results, result)` for every call of the callback -/
def collect : List (Name × Leaf) → Option (List Result)
  | [] => some []
  | (n, l) :: r =>
    match outcomeOf l with
    | none => none
    | some o =>
      match collect r with
      | none => none
      | some rs => some (⟨n, o⟩ :: rs)

/-- `RunExpr`: error when evaluation fails, otherwise one Result per leaf -/
def runExpr (t : Tree) : Except Err (List Result) :=
  if !t.evaluates then .error (.file [])
  else match collect (foreachLeaf t []) with
    | none => .error .crash
    | some rs => .ok rs

/-- `runFile` -/
def runFile (f : TestFile) : Except Err FileRun :=
  match f.content with
  | none => .error (.file f.path)                       -- failed compiling tests file
  | some t =>
    match runExpr t with
    | .error .crash => .error .crash
    | .error _ => .error (.file f.path)                 -- failed evaluating tests file
    | .ok rs => .ok ⟨f.path, rs⟩

mutual
/-- the walk function of getTestFiles under `afero.Walk` -/
def walk : Node → Name → List TestFile
  | .file _ c, path => if isTestPath path then [⟨path, c⟩] else []
  | .dir n ch, path => if isHidden n then [] else walkAll ch path
def walkAll : List Node → Name → List TestFile
  | [], _ => []
  | c :: r, path => walk c (joinPath path c.name) ++ walkAll r path
end

/-- `getTestFiles` -/
def getTestFiles (w : World) (path : Name) : Except Err (List TestFile) :=
  match w.lstat path with
  | none => .error .walk
  | some n =>
    let files := walk n path
    if files.isEmpty then .error .noFiles else .ok files

/-- the loop of RunTests: stop at the first file that fails -/
def runFiles : List TestFile → Except Err (List FileRun)
  | [] => .ok []
  | f :: r =>
    match runFile f with
    | .error e => .error e
    | .ok fr =>
      match runFiles r with
      | .error e => .error e
      | .ok frs => .ok (fr :: frs)

/-- the `switch result.Outcome` of calcStats, after `stats.total++` -/
def bump (s : Stats) : Outcome → Stats
  | .invalid => { s with total := s.total + 1, invalid := s.invalid + 1 }
  | .passed => { s with total := s.total + 1, passed := s.passed + 1 }
  | .ignored => { s with total := s.total + 1, ignored := s.ignored + 1 }
  | .failed => { s with total := s.total + 1, failed := s.failed + 1 }

def countResults (s : Stats) : List Result → Stats
  | [] => s
  | r :: rs => countResults (bump s r.outcome) rs

def countFiles (s : Stats) : List FileRun → Stats
  | [] => s
  | f :: fs => countFiles (countResults s f.results) fs

/-- `calcStats` -/
def calcStats (files : List FileRun) : Stats :=
  let s := countFiles {} files
  { s with runFailed := decide (s.failed > 0) || decide (s.invalid > 0) }

/-- the path RunTests walks: the working directory for "" and "." -/
def targetPath (w : World) (path : Name) : Name :=
  if path = [] ∨ path = ['.'] then w.cwd else path

/-- `RunTests` followed by `Report` -/
def runTests (w : World) (path : Name) : Run :=
  match getTestFiles w (targetPath w path) with
  | .error e => .error e
  | .ok files =>
    match runFiles files with
    | .error e => .error e
    | .ok runs => .reported runs (calcStats runs)

end Impl

/-- `f` is a test file of the run `arrai test <path>` -/
def Spec.IsTestFile (w : World) (path : Name) (f : TestFile) : Prop :=
  ∃ n, w.lstat (Impl.targetPath w path) = some n ∧ Spec.Under n (Impl.targetPath w path) f

/-- the outcomes the leaves of the given files must get, file by file, leaf by leaf -/
def Spec.leafOutcomes (f : TestFile) : List Outcome :=
  match f.content with
  | some t => (Spec.leaves t).map (fun pl => Spec.outcome pl.2)
  | none => []

/-! ## The specified run (independent of Impl: from `Spec.leaves`, `Spec.render`, `Spec.outcome`) -/
namespace Spec

def countOutcome (o : Outcome) (files : List FileRun) : Nat :=
  (files.map (fun f => (f.results.filter (fun r => r.outcome = o)).length)).sum

def fileRun (path : Name) (t : Tree) : FileRun :=
  ⟨path, (leaves t).map (fun pl => ⟨render pl.1, outcome pl.2⟩)⟩

def stats (files : List FileRun) : Stats :=
  { total := (files.map (fun f => f.results.length)).sum
    invalid := countOutcome .invalid files
    passed := countOutcome .passed files
    ignored := countOutcome .ignored files
    failed := countOutcome .failed files
    runFailed := files.any (fun f => f.results.any (fun r => r.outcome != .passed && r.outcome != .ignored)) }

/-- the first file that does not compile or evaluate -/
def firstBad : List TestFile → Option Name
  | [] => none
  | f :: r =>
    match f.content with
    | none => some f.path
    | some t => if t.evaluates then firstBad r else some f.path

def runsOf : List TestFile → List FileRun
  | [] => []
  | f :: r =>
    match f.content with
    | none => runsOf r
    | some t => fileRun f.path t :: runsOf r

def run (w : World) (path : Name) : Run :=
  match w.lstat (Impl.targetPath w path) with
  | none => .error .walk
  | some n =>
    let files := Impl.walk n (Impl.targetPath w path)
    if files.isEmpty then .error .noFiles
    else match firstBad files with
      | some p => .error (.file p)
      | none => let runs := runsOf files; .reported runs (stats runs)

end Spec

end Arrai.C20
