/-
  C20 helper lemmas (core only).
-/
import Arrai.C20.Model

namespace Arrai.C20
open Spec

/-! ### ForeachLeaf visits the specified leaves, in order -/

theorem map_snd_pre (s : Step) (l : List (Path × Leaf)) :
    (l.map (pre s)).map Prod.snd = l.map Prod.snd := by
  simp [List.map_map, Function.comp_def, pre]

mutual
theorem foreachLeaf_snd (t : Tree) (p : Name) :
    (Impl.foreachLeaf t p).map Prod.snd = (leaves t).map Prod.snd := by
  cases t with
  | leaf l => simp [Impl.foreachLeaf, leaves]
  | tup as => simp [Impl.foreachLeaf, leaves, foreachAttrs_snd as]
  | arr off items => simp [Impl.foreachLeaf, leaves, foreachItems_snd items]
  | dict es => simp [Impl.foreachLeaf, leaves, foreachEntries_snd es]
theorem foreachAttrs_snd (as : List (Name × Tree)) (p : Name) :
    (Impl.foreachAttrs as p).map Prod.snd = (leavesAttrs as).map Prod.snd := by
  cases as with
  | nil => simp [Impl.foreachAttrs, leavesAttrs]
  | cons a r =>
    obtain ⟨n, t⟩ := a
    simp [Impl.foreachAttrs, leavesAttrs, foreachLeaf_snd t, foreachAttrs_snd r, pre]
theorem foreachItems_snd (items : List (Option Tree)) (i : Int) (p : Name) :
    (Impl.foreachItems items i p).map Prod.snd = (leavesItems items i).map Prod.snd := by
  cases items with
  | nil => simp [Impl.foreachItems, leavesItems]
  | cons a r =>
    cases a with
    | none => simp [Impl.foreachItems, leavesItems, foreachItems_snd r]
    | some t => simp [Impl.foreachItems, leavesItems, foreachLeaf_snd t, foreachItems_snd r, pre]
theorem foreachEntries_snd (es : List (Key × Tree)) (p : Name) :
    (Impl.foreachEntries es p).map Prod.snd = (leavesEntries es).map Prod.snd := by
  cases es with
  | nil => simp [Impl.foreachEntries, leavesEntries]
  | cons a r =>
    obtain ⟨k, t⟩ := a
    simp [Impl.foreachEntries, leavesEntries, foreachLeaf_snd t, foreachEntries_snd r, pre]
end


/-! ### the path handed to the leaf action is the rendered structured path -/

/-- a path prefix on which `strings.TrimPrefix(path, ".")` does nothing, now and after appending -/
def Good (q : Name) : Prop := q ≠ [] ∧ q.head? ≠ some '.'

theorem trimDot_cons (c : Char) (r : Name) : trimDot (c :: r) = if c = '.' then r else c :: r := by
  unfold trimDot
  split
  · rename_i h; cases h; simp
  · rename_i h
    by_cases hc : c = '.'
    · subst hc; exact absurd rfl (h r)
    · simp [hc]

theorem trimDot_good {q : Name} (h : Good q) : trimDot q = q := by
  cases q with
  | nil => exact absurd rfl h.1
  | cons c r =>
    have : c ≠ '.' := fun e => h.2 (by simp [e])
    simp [trimDot_cons, this]

theorem good_append {q : Name} (r : Name) (h : Good q) : Good (q ++ r) := by
  cases q with
  | nil => exact absurd rfl h.1
  | cons c q => exact ⟨by simp, by simpa using h.2⟩

theorem good_of_nameOk {n : Name} (h : nameOk n = true) : Good n := by
  cases n with
  | nil => simp [nameOk] at h
  | cons c r =>
    refine ⟨by simp, ?_⟩
    simp [nameOk] at h
    simpa using h

def lab (q : Name) (pl : Path × Leaf) : Name × Leaf := (q ++ Path.chars pl.1, pl.2)
def labR (pl : Path × Leaf) : Name × Leaf := (render pl.1, pl.2)

theorem lab_pre (q : Name) (s : Step) (l : List (Path × Leaf)) :
    (l.map (pre s)).map (lab q) = l.map (lab (q ++ s.chars)) := by
  simp [List.map_map, Function.comp_def, lab, pre, Path.chars, List.append_assoc]

mutual
theorem foreachLeaf_good (t : Tree) (q : Name) (hq : Good q) (h : namesOk t = true) :
    Impl.foreachLeaf t q = (leaves t).map (lab q) := by
  cases t with
  | leaf l => simp [Impl.foreachLeaf, leaves, lab, trimDot_good hq, Path.chars]
  | tup as =>
    simp only [namesOk] at h
    simp [Impl.foreachLeaf, leaves, trimDot_good hq, foreachAttrs_good as q hq h]
  | arr off items =>
    simp only [namesOk] at h
    simp [Impl.foreachLeaf, leaves, trimDot_good hq, foreachItems_good items off q hq h]
  | dict es =>
    simp only [namesOk] at h
    simp [Impl.foreachLeaf, leaves, trimDot_good hq, foreachEntries_good es q hq h]
theorem foreachAttrs_good (as : List (Name × Tree)) (q : Name) (hq : Good q)
    (h : namesOkAttrs as = true) : Impl.foreachAttrs as q = (leavesAttrs as).map (lab q) := by
  cases as with
  | nil => simp [Impl.foreachAttrs, leavesAttrs]
  | cons a r =>
    obtain ⟨n, t⟩ := a
    simp only [namesOkAttrs, Bool.and_eq_true] at h
    rw [Impl.foreachAttrs, leavesAttrs, List.map_append, lab_pre,
      foreachLeaf_good t _ (good_append _ hq) h.1.2, foreachAttrs_good r q hq h.2]
theorem foreachItems_good (items : List (Option Tree)) (i : Int) (q : Name) (hq : Good q)
    (h : namesOkItems items = true) : Impl.foreachItems items i q = (leavesItems items i).map (lab q) := by
  cases items with
  | nil => simp [Impl.foreachItems, leavesItems]
  | cons a r =>
    cases a with
    | none =>
      simp only [namesOkItems] at h
      rw [Impl.foreachItems, leavesItems, foreachItems_good r _ q hq h]
    | some t =>
      simp only [namesOkItems, Bool.and_eq_true] at h
      rw [Impl.foreachItems, leavesItems, List.map_append, lab_pre,
        foreachLeaf_good t _ (good_append _ hq) h.1, foreachItems_good r _ q hq h.2]
theorem foreachEntries_good (es : List (Key × Tree)) (q : Name) (hq : Good q)
    (h : namesOkEntries es = true) : Impl.foreachEntries es q = (leavesEntries es).map (lab q) := by
  cases es with
  | nil => simp [Impl.foreachEntries, leavesEntries]
  | cons a r =>
    obtain ⟨k, t⟩ := a
    simp only [namesOkEntries, Bool.and_eq_true] at h
    rw [Impl.foreachEntries, leavesEntries, List.map_append, lab_pre,
      foreachLeaf_good t _ (good_append _ hq) h.1, foreachEntries_good r q hq h.2]
end


theorem foreachLeaf_trim (t : Tree) (p : Name) (h : trimDot (trimDot p) = trimDot p) :
    Impl.foreachLeaf t p = Impl.foreachLeaf t (trimDot p) := by
  cases t <;> simp [Impl.foreachLeaf, h]

theorem labR_pre_attr (n : Name) (l : List (Path × Leaf)) :
    (l.map (pre (.attr n))).map labR = l.map (lab n) := by
  simp [List.map_map, Function.comp_def, lab, labR, pre, render, Path.chars, Step.chars, trimDot_cons]

theorem labR_pre_good (s : Step) (hs : Good s.chars) (l : List (Path × Leaf)) :
    (l.map (pre s)).map labR = l.map (lab s.chars) := by
  simp only [List.map_map, Function.comp_def, lab, labR, pre, render, Path.chars]
  apply List.map_congr_left
  intro pl _
  rw [trimDot_good (good_append _ hs)]
  rfl

theorem good_idx (i : Int) : Good (Step.idx i).chars := ⟨by simp [Step.chars], by simp [Step.chars]⟩
theorem good_key (k : Key) : Good (Step.key k).chars := ⟨by simp [Step.chars], by simp [Step.chars]⟩

theorem foreachLeaf_attr_root (t : Tree) (n : Name) (hn : nameOk n = true) (h : namesOk t = true) :
    Impl.foreachLeaf t ([] ++ (Step.attr n).chars) = (leaves t).map (lab n) := by
  have hg := good_of_nameOk hn
  have h1 : trimDot ('.' :: n) = n := by simp [trimDot_cons]
  rw [List.nil_append, Step.chars, foreachLeaf_trim _ _ (by rw [h1, trimDot_good hg]), h1,
    foreachLeaf_good t n hg h]

mutual
theorem foreachLeaf_root (t : Tree) (h : namesOk t = true) :
    Impl.foreachLeaf t [] = (leaves t).map labR := by
  cases t with
  | leaf l => simp [Impl.foreachLeaf, leaves, labR, render, Path.chars, trimDot]
  | tup as =>
    simp only [namesOk] at h
    simp [Impl.foreachLeaf, leaves, trimDot, foreachAttrs_root as h]
  | arr off items =>
    simp only [namesOk] at h
    simp [Impl.foreachLeaf, leaves, trimDot, foreachItems_root items off h]
  | dict es =>
    simp only [namesOk] at h
    simp [Impl.foreachLeaf, leaves, trimDot, foreachEntries_root es h]
theorem foreachAttrs_root (as : List (Name × Tree)) (h : namesOkAttrs as = true) :
    Impl.foreachAttrs as [] = (leavesAttrs as).map labR := by
  cases as with
  | nil => simp [Impl.foreachAttrs, leavesAttrs]
  | cons a r =>
    obtain ⟨n, t⟩ := a
    simp only [namesOkAttrs, Bool.and_eq_true] at h
    rw [Impl.foreachAttrs, leavesAttrs, List.map_append, labR_pre_attr,
      foreachLeaf_attr_root t n h.1.1 h.1.2, foreachAttrs_root r h.2]
theorem foreachItems_root (items : List (Option Tree)) (i : Int) (h : namesOkItems items = true) :
    Impl.foreachItems items i [] = (leavesItems items i).map labR := by
  cases items with
  | nil => simp [Impl.foreachItems, leavesItems]
  | cons a r =>
    cases a with
    | none =>
      simp only [namesOkItems] at h
      rw [Impl.foreachItems, leavesItems, foreachItems_root r _ h]
    | some t =>
      simp only [namesOkItems, Bool.and_eq_true] at h
      rw [Impl.foreachItems, leavesItems, List.map_append, labR_pre_good _ (good_idx i), List.nil_append,
        foreachLeaf_good t _ (good_idx i) h.1, foreachItems_root r _ h.2]
theorem foreachEntries_root (es : List (Key × Tree)) (h : namesOkEntries es = true) :
    Impl.foreachEntries es [] = (leavesEntries es).map labR := by
  cases es with
  | nil => simp [Impl.foreachEntries, leavesEntries]
  | cons a r =>
    obtain ⟨k, t⟩ := a
    simp only [namesOkEntries, Bool.and_eq_true] at h
    rw [Impl.foreachEntries, leavesEntries, List.map_append, labR_pre_good _ (good_key k), List.nil_append,
      foreachLeaf_good t _ (good_key k) h.1, foreachEntries_root r h.2]
end


/-! ### leaves = the paths that lead to a leaf; each path once -/

theorem distinct_cons {α} [DecidableEq α] (a : α) (r : List α) :
    distinct (a :: r) = true ↔ a ∉ r ∧ distinct r = true := by
  simp [distinct]

mutual
theorem mem_of_get (t : Tree) (p : Path) (l : Leaf) (h : subtree t p = some (.leaf l)) : (p, l) ∈ leaves t := by
  cases t with
  | leaf l' =>
    cases p with
    | nil => simp [subtree] at h; simp [leaves, h]
    | cons s p => simp [subtree] at h
  | tup as =>
    cases p with
    | nil => simp [subtree] at h
    | cons s p =>
      cases s with
      | attr n =>
        simp only [subtree] at h
        split at h
        · rename_i t' ht'; exact memAttrs_of_lookup as n p l t' ht' h
        · cases h
      | _ => simp [subtree] at h
  | arr off items =>
    cases p with
    | nil => simp [subtree] at h
    | cons s p =>
      cases s with
      | idx i =>
        simp only [subtree] at h
        split at h
        · rename_i t' ht'; exact memItems_of_lookup items off i p l t' ht' h
        · cases h
      | _ => simp [subtree] at h
  | dict es =>
    cases p with
    | nil => simp [subtree] at h
    | cons s p =>
      cases s with
      | key k =>
        simp only [subtree] at h
        split at h
        · rename_i t' ht'; exact memEntries_of_lookup es k p l t' ht' h
        · cases h
      | _ => simp [subtree] at h
theorem memAttrs_of_lookup (as : List (Name × Tree)) (n : Name) (p : Path) (l : Leaf) (t' : Tree)
    (h1 : lookupAttr n as = some t') (h2 : subtree t' p = some (.leaf l)) :
    (Step.attr n :: p, l) ∈ leavesAttrs as := by
  cases as with
  | nil => simp [lookupAttr] at h1
  | cons a r =>
    obtain ⟨m, t⟩ := a
    simp only [lookupAttr] at h1
    simp only [leavesAttrs, List.mem_append]
    by_cases hnm : n = m
    · simp [hnm] at h1
      subst h1; subst hnm
      exact Or.inl (List.mem_map.2 ⟨(p, l), mem_of_get t p l h2, rfl⟩)
    · simp [hnm] at h1
      exact Or.inr (memAttrs_of_lookup r n p l t' h1 h2)
theorem memItems_of_lookup (items : List (Option Tree)) (j i : Int) (p : Path) (l : Leaf) (t' : Tree)
    (h1 : lookupItem i items j = some t') (h2 : subtree t' p = some (.leaf l)) :
    (Step.idx i :: p, l) ∈ leavesItems items j := by
  cases items with
  | nil => simp [lookupItem] at h1
  | cons a r =>
    simp only [lookupItem] at h1
    by_cases hij : i = j
    · simp [hij] at h1
      subst h1; subst hij
      simp only [leavesItems, List.mem_append]
      exact Or.inl (List.mem_map.2 ⟨(p, l), mem_of_get t' p l h2, rfl⟩)
    · simp [hij] at h1
      have ih := memItems_of_lookup r (j + 1) i p l t' h1 h2
      cases a with
      | none => simpa [leavesItems] using ih
      | some t => simp only [leavesItems, List.mem_append]; exact Or.inr ih
theorem memEntries_of_lookup (es : List (Key × Tree)) (k : Key) (p : Path) (l : Leaf) (t' : Tree)
    (h1 : lookupKey k es = some t') (h2 : subtree t' p = some (.leaf l)) :
    (Step.key k :: p, l) ∈ leavesEntries es := by
  cases es with
  | nil => simp [lookupKey] at h1
  | cons a r =>
    obtain ⟨m, t⟩ := a
    simp only [lookupKey] at h1
    simp only [leavesEntries, List.mem_append]
    by_cases hnm : k = m
    · simp [hnm] at h1
      subst h1; subst hnm
      exact Or.inl (List.mem_map.2 ⟨(p, l), mem_of_get t p l h2, rfl⟩)
    · simp [hnm] at h1
      exact Or.inr (memEntries_of_lookup r k p l t' h1 h2)
end

end Arrai.C20
