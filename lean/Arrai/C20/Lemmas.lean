/-
  C20 helper lemmas (core only).
-/
import Arrai.C20.Model

namespace Arrai.C20
open Spec

/-! ### ForeachLeaf visits the specified leaves, in order -/

theorem map_snd_pre (s : Step) (l : List (Path × Leaf)) :
    (l.map (pre s)).map Prod.snd = l.map Prod.snd := by
  simp [List.map_map, Function.comp_def, pre]

mutual
theorem foreachLeaf_snd (t : Tree) (p : Name) :
    (Impl.foreachLeaf t p).map Prod.snd = (leaves t).map Prod.snd := by
  cases t with
  | leaf l => simp [Impl.foreachLeaf, leaves]
  | tup as => simp [Impl.foreachLeaf, leaves, foreachAttrs_snd as]
  | arr off items => simp [Impl.foreachLeaf, leaves, foreachItems_snd items]
  | dict es => simp [Impl.foreachLeaf, leaves, foreachEntries_snd es]
theorem foreachAttrs_snd (as : List (Name × Tree)) (p : Name) :
    (Impl.foreachAttrs as p).map Prod.snd = (leavesAttrs as).map Prod.snd := by
  cases as with
  | nil => simp [Impl.foreachAttrs, leavesAttrs]
  | cons a r =>
    obtain ⟨n, t⟩ := a
    simp [Impl.foreachAttrs, leavesAttrs, foreachLeaf_snd t, foreachAttrs_snd r, pre]
theorem foreachItems_snd (items : List (Option Tree)) (i : Int) (p : Name) :
    (Impl.foreachItems items i p).map Prod.snd = (leavesItems items i).map Prod.snd := by
  cases items with
  | nil => simp [Impl.foreachItems, leavesItems]
  | cons a r =>
    cases a with
    | none => simp [Impl.foreachItems, leavesItems, foreachItems_snd r]
    | some t => simp [Impl.foreachItems, leavesItems, foreachLeaf_snd t, foreachItems_snd r, pre]
theorem foreachEntries_snd (es : List (Key × Tree)) (p : Name) :
    (Impl.foreachEntries es p).map Prod.snd = (leavesEntries es).map Prod.snd := by
  cases es with
  | nil => simp [Impl.foreachEntries, leavesEntries]
  | cons a r =>
    obtain ⟨k, t⟩ := a
    simp [Impl.foreachEntries, leavesEntries, foreachLeaf_snd t, foreachEntries_snd r, pre]
end


/-! ### the path handed to the leaf action is the rendered structured path -/

/-- a path prefix on which `strings.TrimPrefix(path, ".")` does nothing, now and after appending -/
def Good (q : Name) : Prop := q ≠ [] ∧ q.head? ≠ some '.'

theorem trimDot_cons (c : Char) (r : Name) : trimDot (c :: r) = if c = '.' then r else c :: r := by
  unfold trimDot
  split
  · rename_i h; cases h; simp
  · rename_i h
    by_cases hc : c = '.'
    · subst hc; exact absurd rfl (h r)
    · simp [hc]

theorem trimDot_good {q : Name} (h : Good q) : trimDot q = q := by
  cases q with
  | nil => exact absurd rfl h.1
  | cons c r =>
    have : c ≠ '.' := fun e => h.2 (by simp [e])
    simp [trimDot_cons, this]

theorem good_append {q : Name} (r : Name) (h : Good q) : Good (q ++ r) := by
  cases q with
  | nil => exact absurd rfl h.1
  | cons c q => exact ⟨by simp, by simpa using h.2⟩

theorem good_of_nameOk {n : Name} (h : nameOk n = true) : Good n := by
  cases n with
  | nil => simp [nameOk] at h
  | cons c r =>
    refine ⟨by simp, ?_⟩
    simp [nameOk] at h
    simpa using h

def lab (q : Name) (pl : Path × Leaf) : Name × Leaf := (q ++ Path.chars pl.1, pl.2)
def labR (pl : Path × Leaf) : Name × Leaf := (render pl.1, pl.2)

theorem lab_pre (q : Name) (s : Step) (l : List (Path × Leaf)) :
    (l.map (pre s)).map (lab q) = l.map (lab (q ++ s.chars)) := by
  simp [List.map_map, Function.comp_def, lab, pre, Path.chars, List.append_assoc]

mutual
theorem foreachLeaf_good (t : Tree) (q : Name) (hq : Good q) (h : namesOk t = true) :
    Impl.foreachLeaf t q = (leaves t).map (lab q) := by
  cases t with
  | leaf l => simp [Impl.foreachLeaf, leaves, lab, trimDot_good hq, Path.chars]
  | tup as =>
    simp only [namesOk] at h
    simp [Impl.foreachLeaf, leaves, trimDot_good hq, foreachAttrs_good as q hq h]
  | arr off items =>
    simp only [namesOk] at h
    simp [Impl.foreachLeaf, leaves, trimDot_good hq, foreachItems_good items off q hq h]
  | dict es =>
    simp only [namesOk] at h
    simp [Impl.foreachLeaf, leaves, trimDot_good hq, foreachEntries_good es q hq h]
theorem foreachAttrs_good (as : List (Name × Tree)) (q : Name) (hq : Good q)
    (h : namesOkAttrs as = true) : Impl.foreachAttrs as q = (leavesAttrs as).map (lab q) := by
  cases as with
  | nil => simp [Impl.foreachAttrs, leavesAttrs]
  | cons a r =>
    obtain ⟨n, t⟩ := a
    simp only [namesOkAttrs, Bool.and_eq_true] at h
    rw [Impl.foreachAttrs, leavesAttrs, List.map_append, lab_pre,
      foreachLeaf_good t _ (good_append _ hq) h.1.2, foreachAttrs_good r q hq h.2]
theorem foreachItems_good (items : List (Option Tree)) (i : Int) (q : Name) (hq : Good q)
    (h : namesOkItems items = true) : Impl.foreachItems items i q = (leavesItems items i).map (lab q) := by
  cases items with
  | nil => simp [Impl.foreachItems, leavesItems]
  | cons a r =>
    cases a with
    | none =>
      simp only [namesOkItems] at h
      rw [Impl.foreachItems, leavesItems, foreachItems_good r _ q hq h]
    | some t =>
      simp only [namesOkItems, Bool.and_eq_true] at h
      rw [Impl.foreachItems, leavesItems, List.map_append, lab_pre,
        foreachLeaf_good t _ (good_append _ hq) h.1, foreachItems_good r _ q hq h.2]
theorem foreachEntries_good (es : List (Key × Tree)) (q : Name) (hq : Good q)
    (h : namesOkEntries es = true) : Impl.foreachEntries es q = (leavesEntries es).map (lab q) := by
  cases es with
  | nil => simp [Impl.foreachEntries, leavesEntries]
  | cons a r =>
    obtain ⟨k, t⟩ := a
    simp only [namesOkEntries, Bool.and_eq_true] at h
    rw [Impl.foreachEntries, leavesEntries, List.map_append, lab_pre,
      foreachLeaf_good t _ (good_append _ hq) h.1, foreachEntries_good r q hq h.2]
end


theorem foreachLeaf_trim (t : Tree) (p : Name) (h : trimDot (trimDot p) = trimDot p) :
    Impl.foreachLeaf t p = Impl.foreachLeaf t (trimDot p) := by
  cases t <;> simp [Impl.foreachLeaf, h]

theorem labR_pre_attr (n : Name) (l : List (Path × Leaf)) :
    (l.map (pre (.attr n))).map labR = l.map (lab n) := by
  simp [List.map_map, Function.comp_def, lab, labR, pre, render, Path.chars, Step.chars, trimDot_cons]

theorem labR_pre_good (s : Step) (hs : Good s.chars) (l : List (Path × Leaf)) :
    (l.map (pre s)).map labR = l.map (lab s.chars) := by
  simp only [List.map_map, Function.comp_def, labR, pre, render, Path.chars]
  apply List.map_congr_left
  intro pl _
  rw [trimDot_good (good_append _ hs)]
  rfl

theorem good_idx (i : Int) : Good (Step.idx i).chars := ⟨by simp [Step.chars], by simp [Step.chars]⟩
theorem good_key (k : Key) : Good (Step.key k).chars := ⟨by simp [Step.chars], by simp [Step.chars]⟩

theorem foreachLeaf_attr_root (t : Tree) (n : Name) (hn : nameOk n = true) (h : namesOk t = true) :
    Impl.foreachLeaf t ([] ++ (Step.attr n).chars) = (leaves t).map (lab n) := by
  have hg := good_of_nameOk hn
  have h1 : trimDot ('.' :: n) = n := by simp [trimDot_cons]
  rw [List.nil_append, Step.chars, foreachLeaf_trim _ _ (by rw [h1, trimDot_good hg]), h1,
    foreachLeaf_good t n hg h]

mutual
theorem foreachLeaf_root (t : Tree) (h : namesOk t = true) :
    Impl.foreachLeaf t [] = (leaves t).map labR := by
  cases t with
  | leaf l => simp [Impl.foreachLeaf, leaves, labR, render, Path.chars, trimDot]
  | tup as =>
    simp only [namesOk] at h
    simp [Impl.foreachLeaf, leaves, trimDot, foreachAttrs_root as h]
  | arr off items =>
    simp only [namesOk] at h
    simp [Impl.foreachLeaf, leaves, trimDot, foreachItems_root items off h]
  | dict es =>
    simp only [namesOk] at h
    simp [Impl.foreachLeaf, leaves, trimDot, foreachEntries_root es h]
theorem foreachAttrs_root (as : List (Name × Tree)) (h : namesOkAttrs as = true) :
    Impl.foreachAttrs as [] = (leavesAttrs as).map labR := by
  cases as with
  | nil => simp [Impl.foreachAttrs, leavesAttrs]
  | cons a r =>
    obtain ⟨n, t⟩ := a
    simp only [namesOkAttrs, Bool.and_eq_true] at h
    rw [Impl.foreachAttrs, leavesAttrs, List.map_append, labR_pre_attr,
      foreachLeaf_attr_root t n h.1.1 h.1.2, foreachAttrs_root r h.2]
theorem foreachItems_root (items : List (Option Tree)) (i : Int) (h : namesOkItems items = true) :
    Impl.foreachItems items i [] = (leavesItems items i).map labR := by
  cases items with
  | nil => simp [Impl.foreachItems, leavesItems]
  | cons a r =>
    cases a with
    | none =>
      simp only [namesOkItems] at h
      rw [Impl.foreachItems, leavesItems, foreachItems_root r _ h]
    | some t =>
      simp only [namesOkItems, Bool.and_eq_true] at h
      rw [Impl.foreachItems, leavesItems, List.map_append, labR_pre_good _ (good_idx i), List.nil_append,
        foreachLeaf_good t _ (good_idx i) h.1, foreachItems_root r _ h.2]
theorem foreachEntries_root (es : List (Key × Tree)) (h : namesOkEntries es = true) :
    Impl.foreachEntries es [] = (leavesEntries es).map labR := by
  cases es with
  | nil => simp [Impl.foreachEntries, leavesEntries]
  | cons a r =>
    obtain ⟨k, t⟩ := a
    simp only [namesOkEntries, Bool.and_eq_true] at h
    rw [Impl.foreachEntries, leavesEntries, List.map_append, labR_pre_good _ (good_key k), List.nil_append,
      foreachLeaf_good t _ (good_key k) h.1, foreachEntries_root r h.2]
end


/-! ### leaves = the paths that lead to a leaf; each path once -/

theorem distinct_cons {α} [DecidableEq α] (a : α) (r : List α) :
    distinct (a :: r) = true ↔ a ∉ r ∧ distinct r = true := by
  simp [distinct]

mutual
theorem mem_of_get (t : Tree) (p : Path) (l : Leaf) (h : subtree t p = some (.leaf l)) : (p, l) ∈ leaves t := by
  cases t with
  | leaf l' =>
    cases p with
    | nil => simp [subtree] at h; simp [leaves, h]
    | cons s p => simp [subtree] at h
  | tup as =>
    cases p with
    | nil => simp [subtree] at h
    | cons s p =>
      cases s with
      | attr n =>
        simp only [subtree] at h
        split at h
        · rename_i t' ht'; exact memAttrs_of_lookup as n p l t' ht' h
        · cases h
      | _ => simp [subtree] at h
  | arr off items =>
    cases p with
    | nil => simp [subtree] at h
    | cons s p =>
      cases s with
      | idx i =>
        simp only [subtree] at h
        split at h
        · rename_i t' ht'; exact memItems_of_lookup items off i p l t' ht' h
        · cases h
      | _ => simp [subtree] at h
  | dict es =>
    cases p with
    | nil => simp [subtree] at h
    | cons s p =>
      cases s with
      | key k =>
        simp only [subtree] at h
        split at h
        · rename_i t' ht'; exact memEntries_of_lookup es k p l t' ht' h
        · cases h
      | _ => simp [subtree] at h
theorem memAttrs_of_lookup (as : List (Name × Tree)) (n : Name) (p : Path) (l : Leaf) (t' : Tree)
    (h1 : lookupAttr n as = some t') (h2 : subtree t' p = some (.leaf l)) :
    (Step.attr n :: p, l) ∈ leavesAttrs as := by
  cases as with
  | nil => simp [lookupAttr] at h1
  | cons a r =>
    obtain ⟨m, t⟩ := a
    simp only [lookupAttr] at h1
    simp only [leavesAttrs, List.mem_append]
    by_cases hnm : n = m
    · simp [hnm] at h1
      rw [← h1] at h2
      exact Or.inl (List.mem_map.2 ⟨(p, l), mem_of_get t p l h2, by simp [pre, hnm]⟩)
    · simp [hnm] at h1
      exact Or.inr (memAttrs_of_lookup r n p l t' h1 h2)
theorem memItems_of_lookup (items : List (Option Tree)) (j i : Int) (p : Path) (l : Leaf) (t' : Tree)
    (h1 : lookupItem i items j = some t') (h2 : subtree t' p = some (.leaf l)) :
    (Step.idx i :: p, l) ∈ leavesItems items j := by
  cases items with
  | nil => simp [lookupItem] at h1
  | cons a r =>
    simp only [lookupItem] at h1
    by_cases hij : i = j
    · simp [hij] at h1
      cases a with
      | none => cases h1
      | some t =>
        have h1' : t = t' := by simpa using h1
        rw [← h1'] at h2
        simp only [leavesItems, List.mem_append]
        exact Or.inl (List.mem_map.2 ⟨(p, l), mem_of_get t p l h2, by simp [pre, hij]⟩)
    · simp [hij] at h1
      have ih := memItems_of_lookup r (j + 1) i p l t' h1 h2
      cases a with
      | none => simpa [leavesItems] using ih
      | some t => simp only [leavesItems, List.mem_append]; exact Or.inr ih
theorem memEntries_of_lookup (es : List (Key × Tree)) (k : Key) (p : Path) (l : Leaf) (t' : Tree)
    (h1 : lookupKey k es = some t') (h2 : subtree t' p = some (.leaf l)) :
    (Step.key k :: p, l) ∈ leavesEntries es := by
  cases es with
  | nil => simp [lookupKey] at h1
  | cons a r =>
    obtain ⟨m, t⟩ := a
    simp only [lookupKey] at h1
    simp only [leavesEntries, List.mem_append]
    by_cases hnm : k = m
    · simp [hnm] at h1
      rw [← h1] at h2
      exact Or.inl (List.mem_map.2 ⟨(p, l), mem_of_get t p l h2, by simp [pre, hnm]⟩)
    · simp [hnm] at h1
      exact Or.inr (memEntries_of_lookup r k p l t' h1 h2)
end


theorem mem_map_pre {s : Step} {ls : List (Path × Leaf)} {p : Path} {l : Leaf} :
    (p, l) ∈ ls.map (pre s) ↔ ∃ p', p = s :: p' ∧ (p', l) ∈ ls := by
  simp only [List.mem_map, pre]
  constructor
  · rintro ⟨⟨p', l'⟩, hm, he⟩
    simp only [Prod.mk.injEq] at he
    exact ⟨p', he.1.symm, he.2 ▸ hm⟩
  · rintro ⟨p', rfl, hm⟩
    exact ⟨(p', l), hm, rfl⟩

theorem leavesAttrs_head (as : List (Name × Tree)) (p : Path) (l : Leaf) (h : (p, l) ∈ leavesAttrs as) :
    ∃ n p', p = .attr n :: p' ∧ n ∈ as.map Prod.fst := by
  induction as with
  | nil => simp [leavesAttrs] at h
  | cons a r ih =>
    obtain ⟨m, t⟩ := a
    simp only [leavesAttrs, List.mem_append] at h
    rcases h with h | h
    · obtain ⟨p', rfl, _⟩ := mem_map_pre.1 h
      exact ⟨m, p', rfl, by simp⟩
    · obtain ⟨n, p', hp, hn⟩ := ih h
      exact ⟨n, p', hp, by simp [hn]⟩

theorem leavesEntries_head (es : List (Key × Tree)) (p : Path) (l : Leaf) (h : (p, l) ∈ leavesEntries es) :
    ∃ k p', p = .key k :: p' ∧ k ∈ es.map Prod.fst := by
  induction es with
  | nil => simp [leavesEntries] at h
  | cons a r ih =>
    obtain ⟨m, t⟩ := a
    simp only [leavesEntries, List.mem_append] at h
    rcases h with h | h
    · obtain ⟨p', rfl, _⟩ := mem_map_pre.1 h
      exact ⟨m, p', rfl, by simp⟩
    · obtain ⟨n, p', hp, hn⟩ := ih h
      exact ⟨n, p', hp, by simp [hn]⟩

theorem leavesItems_head (items : List (Option Tree)) (j : Int) (p : Path) (l : Leaf)
    (h : (p, l) ∈ leavesItems items j) : ∃ i p', p = .idx i :: p' ∧ j ≤ i := by
  induction items generalizing j with
  | nil => simp [leavesItems] at h
  | cons a r ih =>
    cases a with
    | none =>
      simp only [leavesItems] at h
      obtain ⟨i, p', hp, hi⟩ := ih (j + 1) h
      exact ⟨i, p', hp, by omega⟩
    | some t =>
      simp only [leavesItems, List.mem_append] at h
      rcases h with h | h
      · obtain ⟨p', rfl, _⟩ := mem_map_pre.1 h
        exact ⟨j, p', rfl, by omega⟩
      · obtain ⟨i, p', hp, hi⟩ := ih (j + 1) h
        exact ⟨i, p', hp, by omega⟩

theorem lookupAttr_mem {n : Name} {as : List (Name × Tree)} {t : Tree} (h : lookupAttr n as = some t) :
    n ∈ as.map Prod.fst := by
  induction as with
  | nil => simp [lookupAttr] at h
  | cons a r ih =>
    obtain ⟨m, u⟩ := a
    simp only [lookupAttr] at h
    by_cases hnm : n = m
    · simp [hnm]
    · simp [hnm] at h; simp [ih h]

theorem lookupKey_mem {k : Key} {es : List (Key × Tree)} {t : Tree} (h : lookupKey k es = some t) :
    k ∈ es.map Prod.fst := by
  induction es with
  | nil => simp [lookupKey] at h
  | cons a r ih =>
    obtain ⟨m, u⟩ := a
    simp only [lookupKey] at h
    by_cases hnm : k = m
    · simp [hnm]
    · simp [hnm] at h; simp [ih h]

mutual
theorem get_of_mem (t : Tree) (hw : wf t = true) (p : Path) (l : Leaf) (h : (p, l) ∈ leaves t) :
    subtree t p = some (.leaf l) := by
  cases t with
  | leaf l' => simp [leaves] at h; simp [h, subtree]
  | tup as =>
    simp only [wf, Bool.and_eq_true] at hw
    simp only [leaves] at h
    obtain ⟨n, p', t', rfl, h1, h2⟩ := getAttrs_of_mem as hw.1 hw.2 p l h
    simp [subtree, h1, h2]
  | arr off items =>
    simp only [wf] at hw
    simp only [leaves] at h
    obtain ⟨i, p', t', rfl, h1, h2, _⟩ := getItems_of_mem items off hw p l h
    simp [subtree, h1, h2]
  | dict es =>
    simp only [wf, Bool.and_eq_true] at hw
    simp only [leaves] at h
    obtain ⟨k, p', t', rfl, h1, h2⟩ := getEntries_of_mem es hw.1 hw.2 p l h
    simp [subtree, h1, h2]
theorem getAttrs_of_mem (as : List (Name × Tree)) (hd : distinct (as.map Prod.fst) = true)
    (hw : wfAttrs as = true) (p : Path) (l : Leaf) (h : (p, l) ∈ leavesAttrs as) :
    ∃ n p' t, p = .attr n :: p' ∧ lookupAttr n as = some t ∧ subtree t p' = some (.leaf l) := by
  cases as with
  | nil => simp [leavesAttrs] at h
  | cons a r =>
    obtain ⟨m, t⟩ := a
    simp only [wfAttrs, Bool.and_eq_true] at hw
    simp only [List.map_cons, distinct_cons] at hd
    simp only [leavesAttrs, List.mem_append] at h
    rcases h with h | h
    · obtain ⟨p', rfl, hm⟩ := mem_map_pre.1 h
      exact ⟨m, p', t, rfl, by simp [lookupAttr], get_of_mem t hw.1 p' l hm⟩
    · obtain ⟨n, p', t', hp, h1, h2⟩ := getAttrs_of_mem r hd.2 hw.2 p l h
      have hne : n ≠ m := fun e => hd.1 (e ▸ lookupAttr_mem h1)
      exact ⟨n, p', t', hp, by simp [lookupAttr, hne, h1], h2⟩
theorem getItems_of_mem (items : List (Option Tree)) (j : Int) (hw : wfItems items = true)
    (p : Path) (l : Leaf) (h : (p, l) ∈ leavesItems items j) :
    ∃ i p' t, p = .idx i :: p' ∧ lookupItem i items j = some t ∧ subtree t p' = some (.leaf l) ∧ j ≤ i := by
  cases items with
  | nil => simp [leavesItems] at h
  | cons a r =>
    cases a with
    | none =>
      simp only [wfItems] at hw
      simp only [leavesItems] at h
      obtain ⟨i, p', t', hp, h1, h2, hi⟩ := getItems_of_mem r (j + 1) hw p l h
      have hne : i ≠ j := by omega
      exact ⟨i, p', t', hp, by simp [lookupItem, hne, h1], h2, by omega⟩
    | some t =>
      simp only [wfItems, Bool.and_eq_true] at hw
      simp only [leavesItems, List.mem_append] at h
      rcases h with h | h
      · obtain ⟨p', rfl, hm⟩ := mem_map_pre.1 h
        exact ⟨j, p', t, rfl, by simp [lookupItem], get_of_mem t hw.1 p' l hm, by omega⟩
      · obtain ⟨i, p', t', hp, h1, h2, hi⟩ := getItems_of_mem r (j + 1) hw.2 p l h
        have hne : i ≠ j := by omega
        exact ⟨i, p', t', hp, by simp [lookupItem, hne, h1], h2, by omega⟩
theorem getEntries_of_mem (es : List (Key × Tree)) (hd : distinct (es.map Prod.fst) = true)
    (hw : wfEntries es = true) (p : Path) (l : Leaf) (h : (p, l) ∈ leavesEntries es) :
    ∃ k p' t, p = .key k :: p' ∧ lookupKey k es = some t ∧ subtree t p' = some (.leaf l) := by
  cases es with
  | nil => simp [leavesEntries] at h
  | cons a r =>
    obtain ⟨m, t⟩ := a
    simp only [wfEntries, Bool.and_eq_true] at hw
    simp only [List.map_cons, distinct_cons] at hd
    simp only [leavesEntries, List.mem_append] at h
    rcases h with h | h
    · obtain ⟨p', rfl, hm⟩ := mem_map_pre.1 h
      exact ⟨m, p', t, rfl, by simp [lookupKey], get_of_mem t hw.1 p' l hm⟩
    · obtain ⟨n, p', t', hp, h1, h2⟩ := getEntries_of_mem r hd.2 hw.2 p l h
      have hne : n ≠ m := fun e => hd.1 (e ▸ lookupKey_mem h1)
      exact ⟨n, p', t', hp, by simp [lookupKey, hne, h1], h2⟩
end


theorem paths_pre (s : Step) (ls : List (Path × Leaf)) :
    (ls.map (pre s)).map Prod.fst = (ls.map Prod.fst).map (s :: ·) := by
  simp [List.map_map, Function.comp_def, pre]

theorem nodup_cons_map (s : Step) (ps : List Path) (h : ps.Nodup) : (ps.map (s :: ·)).Nodup := by
  unfold List.Nodup at *
  exact List.Pairwise.map _ (fun a b hab e => hab (by simpa using e)) h

theorem mem_paths {ls : List (Path × Leaf)} {p : Path} (h : p ∈ ls.map Prod.fst) : ∃ l, (p, l) ∈ ls := by
  obtain ⟨⟨p', l⟩, hm, rfl⟩ := List.mem_map.1 h
  exact ⟨l, hm⟩

mutual
theorem nodup_leaves (t : Tree) (hw : wf t = true) : ((leaves t).map Prod.fst).Nodup := by
  cases t with
  | leaf l => simp [leaves]
  | tup as =>
    simp only [wf, Bool.and_eq_true] at hw
    simpa [leaves] using nodup_leavesAttrs as hw.1 hw.2
  | arr off items =>
    simp only [wf] at hw
    simpa [leaves] using nodup_leavesItems items off hw
  | dict es =>
    simp only [wf, Bool.and_eq_true] at hw
    simpa [leaves] using nodup_leavesEntries es hw.1 hw.2
theorem nodup_leavesAttrs (as : List (Name × Tree)) (hd : distinct (as.map Prod.fst) = true)
    (hw : wfAttrs as = true) : ((leavesAttrs as).map Prod.fst).Nodup := by
  cases as with
  | nil => simp [leavesAttrs]
  | cons a r =>
    obtain ⟨m, t⟩ := a
    simp only [wfAttrs, Bool.and_eq_true] at hw
    simp only [List.map_cons, distinct_cons] at hd
    rw [leavesAttrs, List.map_append, paths_pre]
    refine List.nodup_append.2 ⟨nodup_cons_map _ _ (nodup_leaves t hw.1), nodup_leavesAttrs r hd.2 hw.2, ?_⟩
    intro a ha b hb e
    obtain ⟨q, _, rfl⟩ := List.mem_map.1 ha
    obtain ⟨l, hl⟩ := mem_paths hb
    obtain ⟨n, p', hp, hn⟩ := leavesAttrs_head r b l hl
    rw [hp] at e
    simp only [List.cons.injEq, Step.attr.injEq] at e
    exact hd.1 (e.1 ▸ hn)
theorem nodup_leavesItems (items : List (Option Tree)) (j : Int) (hw : wfItems items = true) :
    ((leavesItems items j).map Prod.fst).Nodup := by
  cases items with
  | nil => simp [leavesItems]
  | cons a r =>
    cases a with
    | none =>
      simp only [wfItems] at hw
      rw [leavesItems]
      exact nodup_leavesItems r (j + 1) hw
    | some t =>
      simp only [wfItems, Bool.and_eq_true] at hw
      rw [leavesItems, List.map_append, paths_pre]
      refine List.nodup_append.2 ⟨nodup_cons_map _ _ (nodup_leaves t hw.1), nodup_leavesItems r (j + 1) hw.2, ?_⟩
      intro a ha b hb e
      obtain ⟨q, _, rfl⟩ := List.mem_map.1 ha
      obtain ⟨l, hl⟩ := mem_paths hb
      obtain ⟨i, p', hp, hi⟩ := leavesItems_head r (j + 1) b l hl
      rw [hp] at e
      simp only [List.cons.injEq, Step.idx.injEq] at e
      omega
theorem nodup_leavesEntries (es : List (Key × Tree)) (hd : distinct (es.map Prod.fst) = true)
    (hw : wfEntries es = true) : ((leavesEntries es).map Prod.fst).Nodup := by
  cases es with
  | nil => simp [leavesEntries]
  | cons a r =>
    obtain ⟨m, t⟩ := a
    simp only [wfEntries, Bool.and_eq_true] at hw
    simp only [List.map_cons, distinct_cons] at hd
    rw [leavesEntries, List.map_append, paths_pre]
    refine List.nodup_append.2 ⟨nodup_cons_map _ _ (nodup_leaves t hw.1), nodup_leavesEntries r hd.2 hw.2, ?_⟩
    intro a ha b hb e
    obtain ⟨q, _, rfl⟩ := List.mem_map.1 ha
    obtain ⟨l, hl⟩ := mem_paths hb
    obtain ⟨n, p', hp, hn⟩ := leavesEntries_head r b l hl
    rw [hp] at e
    simp only [List.cons.injEq, Step.key.injEq] at e
    exact hd.1 (e.1 ▸ hn)
end


/-! ### getTestFiles finds exactly the test files under the target -/

mutual
theorem walk_iff (n : Node) (path : Name) (f : TestFile) : f ∈ Impl.walk n path ↔ Under n path f := by
  cases n with
  | file nm c =>
    simp only [Impl.walk]
    constructor
    · intro h
      by_cases ht : isTestPath path = true
      · simp [ht] at h; subst h; exact Under.file ht
      · simp [ht] at h
    · intro h
      cases h with
      | file ht => simp [ht]
  | dir nm ch =>
    simp only [Impl.walk]
    constructor
    · intro h
      by_cases hh : isHidden nm = true
      · simp [hh] at h
      · simp [hh] at h
        obtain ⟨c, hc, hu⟩ := (walkAll_iff ch path f).1 h
        exact Under.dir (by simpa using hh) hc hu
    · intro h
      cases h with
      | dir hh hc hu =>
        simp [hh]
        exact (walkAll_iff ch path f).2 ⟨_, hc, hu⟩
theorem walkAll_iff (ch : List Node) (path : Name) (f : TestFile) :
    f ∈ Impl.walkAll ch path ↔ ∃ c ∈ ch, Under c (joinPath path c.name) f := by
  cases ch with
  | nil => simp [Impl.walkAll]
  | cons c r =>
    simp only [Impl.walkAll, List.mem_append, List.mem_cons, walk_iff c, walkAll_iff r]
    constructor
    · rintro (h | ⟨d, hd, hu⟩)
      · exact ⟨c, Or.inl rfl, h⟩
      · exact ⟨d, Or.inr hd, hu⟩
    · rintro ⟨d, (rfl | hd), hu⟩
      · exact Or.inl hu
      · exact Or.inr ⟨d, hd, hu⟩
end


/-! ### calcStats -/

def cnt (o : Outcome) (rs : List Result) : Nat := (rs.filter (fun r => r.outcome = o)).length

theorem cnt_cons (o : Outcome) (r : Result) (rs : List Result) :
    cnt o (r :: rs) = (if r.outcome = o then 1 else 0) + cnt o rs := by
  unfold cnt
  by_cases h : r.outcome = o <;> simp [h] <;> omega

theorem countResults_fields (s : Stats) (rs : List Result) :
    (Impl.countResults s rs).total = s.total + rs.length ∧
    (Impl.countResults s rs).passed = s.passed + cnt .passed rs ∧
    (Impl.countResults s rs).failed = s.failed + cnt .failed rs ∧
    (Impl.countResults s rs).invalid = s.invalid + cnt .invalid rs ∧
    (Impl.countResults s rs).ignored = s.ignored + cnt .ignored rs := by
  induction rs generalizing s with
  | nil => simp [Impl.countResults, cnt]
  | cons r rs ih =>
    obtain ⟨h1, h2, h3, h4, h5⟩ := ih (Impl.bump s r.outcome)
    simp only [Impl.countResults, cnt_cons, List.length_cons]
    rw [h1, h2, h3, h4, h5]
    cases r.outcome <;> simp [Impl.bump] <;> omega

theorem countOutcome_cons (o : Outcome) (f : FileRun) (fs : List FileRun) :
    countOutcome o (f :: fs) = cnt o f.results + countOutcome o fs := by
  simp [countOutcome, cnt]

theorem countFiles_fields (s : Stats) (fs : List FileRun) :
    (Impl.countFiles s fs).total = s.total + (fs.map (fun f => f.results.length)).sum ∧
    (Impl.countFiles s fs).passed = s.passed + countOutcome .passed fs ∧
    (Impl.countFiles s fs).failed = s.failed + countOutcome .failed fs ∧
    (Impl.countFiles s fs).invalid = s.invalid + countOutcome .invalid fs ∧
    (Impl.countFiles s fs).ignored = s.ignored + countOutcome .ignored fs := by
  induction fs generalizing s with
  | nil => simp [Impl.countFiles, countOutcome]
  | cons f fs ih =>
    obtain ⟨h1, h2, h3, h4, h5⟩ := ih (Impl.countResults s f.results)
    obtain ⟨g1, g2, g3, g4, g5⟩ := countResults_fields s f.results
    simp only [Impl.countFiles, countOutcome_cons, List.map_cons, List.sum_cons]
    rw [h1, h2, h3, h4, h5, g1, g2, g3, g4, g5]
    omega

theorem cnt_pos (o : Outcome) (rs : List Result) : cnt o rs > 0 ↔ ∃ r ∈ rs, r.outcome = o := by
  induction rs with
  | nil => simp [cnt]
  | cons r rs ih =>
    rw [cnt_cons]
    by_cases h : r.outcome = o
    · simp [h]; omega
    · simp [h, ih]

theorem countOutcome_pos (o : Outcome) (fs : List FileRun) :
    countOutcome o fs > 0 ↔ ∃ f ∈ fs, ∃ r ∈ f.results, r.outcome = o := by
  induction fs with
  | nil => simp [countOutcome]
  | cons f fs ih =>
    rw [countOutcome_cons]
    constructor
    · intro h
      by_cases h1 : cnt o f.results > 0
      · obtain ⟨r, hr, ho⟩ := (cnt_pos o _).1 h1
        exact ⟨f, by simp, r, hr, ho⟩
      · obtain ⟨g, hg, r, hr, ho⟩ := ih.1 (by omega)
        exact ⟨g, by simp [hg], r, hr, ho⟩
    · rintro ⟨g, hg, r, hr, ho⟩
      rcases List.mem_cons.1 hg with rfl | hg
      · have := (cnt_pos o _).2 ⟨r, hr, ho⟩; omega
      · have := ih.2 ⟨g, hg, r, hr, ho⟩; omega

theorem stats_ext (a b : Stats) (h0 : a.runFailed = b.runFailed) (h1 : a.total = b.total)
    (h2 : a.invalid = b.invalid) (h3 : a.passed = b.passed) (h4 : a.ignored = b.ignored)
    (h5 : a.failed = b.failed) : a = b := by
  cases a; cases b; simp_all

theorem outcome_bad_iff (o : Outcome) : (o != .passed && o != .ignored) = true ↔ o = .failed ∨ o = .invalid := by
  cases o <;> simp

theorem calcStats_runFailed (fs : List FileRun) :
    (Impl.calcStats fs).runFailed = true ↔ ∃ f ∈ fs, ∃ r ∈ f.results, r.outcome = .failed ∨ r.outcome = .invalid := by
  obtain ⟨_, _, h3, h4, _⟩ := countFiles_fields {} fs
  simp only [Impl.calcStats, Bool.or_eq_true, decide_eq_true_eq, h3, h4]
  have e1 := countOutcome_pos .failed fs
  have e2 := countOutcome_pos .invalid fs
  constructor
  · rintro (h | h)
    · obtain ⟨f, hf, r, hr, ho⟩ := e1.1 (by simpa using h)
      exact ⟨f, hf, r, hr, Or.inl ho⟩
    · obtain ⟨f, hf, r, hr, ho⟩ := e2.1 (by simpa using h)
      exact ⟨f, hf, r, hr, Or.inr ho⟩
  · rintro ⟨f, hf, r, hr, ho | ho⟩
    · have := e1.2 ⟨f, hf, r, hr, ho⟩; left; simpa using this
    · have := e2.2 ⟨f, hf, r, hr, ho⟩; right; simpa using this

theorem calcStats_eq_spec (fs : List FileRun) : Impl.calcStats fs = Spec.stats fs := by
  obtain ⟨h1, h2, h3, h4, h5⟩ := countFiles_fields {} fs
  apply stats_ext
  · rw [Bool.eq_iff_iff, calcStats_runFailed]
    simp only [Spec.stats, List.any_eq_true, outcome_bad_iff]
  · simpa [Impl.calcStats, Spec.stats] using h1
  · simpa [Impl.calcStats, Spec.stats] using h4
  · simpa [Impl.calcStats, Spec.stats] using h2
  · simpa [Impl.calcStats, Spec.stats] using h5
  · simpa [Impl.calcStats, Spec.stats] using h3


/-! ### RunExpr, runFile, the loop of RunTests -/

theorem outcomeOf_some {l : Leaf} {o : Outcome} (h : Impl.outcomeOf l = some o) : o = Spec.outcome l := by
  cases l with
  | genericSet s => cases s <;> simp_all [Impl.outcomeOf, Impl.isLiteralTrue, Impl.isLiteralFalse, Spec.outcome,
      Leaf.isTrue, Leaf.isFalse]
  | _ => simp_all [Impl.outcomeOf, Impl.isLiteralTrue, Impl.isLiteralFalse, Spec.outcome, Leaf.isTrue, Leaf.isFalse]

theorem outcomeOf_none_iff (l : Leaf) : Impl.outcomeOf l = none ↔ l = .genericSet .unit := by
  cases l with
  | genericSet s => cases s <;> simp [Impl.outcomeOf, Impl.isLiteralTrue, Impl.isLiteralFalse]
  | _ => simp [Impl.outcomeOf, Impl.isLiteralTrue, Impl.isLiteralFalse]

theorem outcomeOf_eq {l : Leaf} (h : l ≠ .genericSet .unit) : Impl.outcomeOf l = some (Spec.outcome l) := by
  cases ho : Impl.outcomeOf l with
  | none => exact absurd ((outcomeOf_none_iff l).1 ho) h
  | some o => rw [outcomeOf_some ho]

theorem outcome_passed_iff (l : Leaf) (h : l ≠ .genericSet .unit) : Spec.outcome l = .passed ↔ l = .trueSet := by
  cases l with
  | genericSet s => cases s <;> simp_all [Spec.outcome, Leaf.isTrue, Leaf.isFalse]
  | _ => simp [Spec.outcome, Leaf.isTrue, Leaf.isFalse]

theorem outcome_ne_ignored (l : Leaf) : Spec.outcome l ≠ .ignored := by
  unfold Spec.outcome
  split
  · simp
  · split <;> simp

def labO (x : Name × Leaf) : Result := ⟨x.1, Spec.outcome x.2⟩

theorem collect_some {ls : List (Name × Leaf)} {rs : List Result} (h : Impl.collect ls = some rs) :
    rs = ls.map labO ∧ ∀ x ∈ ls, x.2 ≠ .genericSet .unit := by
  induction ls generalizing rs with
  | nil => simp [Impl.collect] at h; simp [h]
  | cons x r ih =>
    obtain ⟨n, l⟩ := x
    simp only [Impl.collect] at h
    cases ho : Impl.outcomeOf l with
    | none => simp [ho] at h
    | some o =>
      cases hc : Impl.collect r with
      | none => simp [ho, hc] at h
      | some rs' =>
        simp [ho, hc] at h
        obtain ⟨e, hu⟩ := ih hc
        have hl : l ≠ .genericSet .unit := fun e => by simp [(outcomeOf_none_iff l).2 e] at ho
        refine ⟨?_, ?_⟩
        · rw [← h, e, outcomeOf_some ho]; simp [labO]
        · intro y hy
          rcases List.mem_cons.1 hy with rfl | hy
          · exact hl
          · exact hu y hy

theorem collect_eq {ls : List (Name × Leaf)} (h : ∀ x ∈ ls, x.2 ≠ .genericSet .unit) :
    Impl.collect ls = some (ls.map labO) := by
  induction ls with
  | nil => simp [Impl.collect]
  | cons x r ih =>
    obtain ⟨n, l⟩ := x
    have hl : l ≠ .genericSet .unit := h (n, l) (by simp)
    simp [Impl.collect, outcomeOf_eq hl, ih (fun y hy => h y (by simp [hy])), labO]

/-- no leaf is a `GenericSet` equal to `{()}` (which package rel never builds) -/
def noUnit (t : Tree) : Prop := ∀ pl ∈ leaves t, pl.2 ≠ .genericSet .unit

theorem foreachLeaf_noUnit (t : Tree) (p : Name) :
    (∀ x ∈ Impl.foreachLeaf t p, x.2 ≠ .genericSet .unit) ↔ noUnit t := by
  have e := foreachLeaf_snd t p
  unfold noUnit
  constructor
  · intro h pl hpl
    have : pl.2 ∈ (leaves t).map Prod.snd := List.mem_map.2 ⟨pl, hpl, rfl⟩
    rw [← e] at this
    obtain ⟨x, hx, hx2⟩ := List.mem_map.1 this
    exact hx2 ▸ h x hx
  · intro h x hx
    have : x.2 ∈ (Impl.foreachLeaf t p).map Prod.snd := List.mem_map.2 ⟨x, hx, rfl⟩
    rw [e] at this
    obtain ⟨pl, hpl, hpl2⟩ := List.mem_map.1 this
    exact hpl2 ▸ h pl hpl

/-- the results RunExpr produces for a tree (when it neither fails nor panics) -/
def resultsOf (t : Tree) : List Result := (Impl.foreachLeaf t []).map labO

theorem resultsOf_outcomes (t : Tree) :
    (resultsOf t).map (·.outcome) = (leaves t).map (fun pl => Spec.outcome pl.2) := by
  have e := congrArg (List.map Spec.outcome) (foreachLeaf_snd t [])
  simpa [resultsOf, labO, List.map_map, Function.comp_def] using e

theorem runExpr_ok_iff (t : Tree) (rs : List Result) :
    Impl.runExpr t = .ok rs ↔ t.evaluates = true ∧ noUnit t ∧ rs = resultsOf t := by
  unfold Impl.runExpr
  by_cases he : t.evaluates = true
  · simp only [he, Bool.not_true, Bool.false_eq_true, if_false, true_and]
    cases hc : Impl.collect (Impl.foreachLeaf t []) with
    | none =>
      simp only [reduceCtorEq, false_iff, not_and]
      intro hn
      rw [collect_eq ((foreachLeaf_noUnit t []).2 hn)] at hc
      cases hc
    | some rs' =>
      obtain ⟨e, hu⟩ := collect_some hc
      simp only [Except.ok.injEq]
      constructor
      · intro h; subst h; exact ⟨(foreachLeaf_noUnit t []).1 hu, e⟩
      · rintro ⟨_, h⟩; rw [h, e]; rfl
  · simp [he]

theorem runExpr_error_of_fails (t : Tree) (he : t.evaluates = false) : Impl.runExpr t = .error (.file []) := by
  simp [Impl.runExpr, he]

theorem runExpr_crash_iff (t : Tree) : Impl.runExpr t = .error .crash ↔ t.evaluates = true ∧ ¬ noUnit t := by
  unfold Impl.runExpr
  by_cases he : t.evaluates = true
  · simp only [he, Bool.not_true, Bool.false_eq_true, if_false, true_and]
    cases hc : Impl.collect (Impl.foreachLeaf t []) with
    | none =>
      simp only [true_iff]
      intro hn
      rw [collect_eq ((foreachLeaf_noUnit t []).2 hn)] at hc
      cases hc
    | some rs' =>
      obtain ⟨_, hu⟩ := collect_some hc
      simp only [reduceCtorEq, false_iff, Classical.not_not]
      exact (foreachLeaf_noUnit t []).1 hu
  · simp [he]

/-- the file compiles, evaluates, and contains no `GenericSet` equal to `{()}` -/
def GoodFile (f : TestFile) : Prop := ∃ t, f.content = some t ∧ t.evaluates = true ∧ noUnit t

def runOf (f : TestFile) : FileRun :=
  match f.content with
  | some t => ⟨f.path, resultsOf t⟩
  | none => ⟨f.path, []⟩

theorem runFile_ok_iff (f : TestFile) (fr : FileRun) :
    Impl.runFile f = .ok fr ↔ GoodFile f ∧ fr = runOf f := by
  unfold Impl.runFile GoodFile runOf
  cases hc : f.content with
  | none => simp
  | some t =>
    simp only [Option.some.injEq, exists_eq_left']
    cases hr : Impl.runExpr t with
    | error e =>
      have : ¬ (t.evaluates = true ∧ noUnit t) := by
        intro ⟨h1, h2⟩
        have := (runExpr_ok_iff t (resultsOf t)).2 ⟨h1, h2, rfl⟩
        rw [hr] at this; cases this
      cases e <;> simp [this]
    | ok rs =>
      obtain ⟨h1, h2, h3⟩ := (runExpr_ok_iff t rs).1 hr
      simp only [Except.ok.injEq, h1, h2, true_and, and_self]
      rw [h3]
      exact eq_comm

theorem runFiles_ok_iff (fs : List TestFile) (runs : List FileRun) :
    Impl.runFiles fs = .ok runs ↔ (∀ f ∈ fs, GoodFile f) ∧ runs = fs.map runOf := by
  induction fs generalizing runs with
  | nil => simp [Impl.runFiles, eq_comm]
  | cons f r ih =>
    simp only [Impl.runFiles]
    cases hf : Impl.runFile f with
    | error e =>
      have : ¬ GoodFile f := fun hg => by
        have := (runFile_ok_iff f (runOf f)).2 ⟨hg, rfl⟩
        rw [hf] at this; cases this
      simp [this]
    | ok fr =>
      obtain ⟨hg, hfr⟩ := (runFile_ok_iff f fr).1 hf
      cases hr : Impl.runFiles r with
      | error e =>
        have : ¬ ∀ g ∈ r, GoodFile g := fun hall => by
          have := (ih (r.map runOf)).2 ⟨hall, rfl⟩
          rw [hr] at this; cases this
        simp [this]
      | ok frs =>
        obtain ⟨hall, hfrs⟩ := (ih frs).1 hr
        simp only [Except.ok.injEq, List.mem_cons, forall_eq_or_imp, hg, true_and, List.map_cons]
        constructor
        · intro h; exact ⟨hall, by rw [← h, hfr, hfrs]⟩
        · rintro ⟨_, h⟩; rw [h, hfr, hfrs]

theorem runTests_reported_iff (w : World) (path : Name) (runs : List FileRun) (st : Stats) :
    Impl.runTests w path = .reported runs st ↔
      ∃ n, w.lstat (Impl.targetPath w path) = some n ∧ Impl.walk n (Impl.targetPath w path) ≠ [] ∧
        Impl.runFiles (Impl.walk n (Impl.targetPath w path)) = .ok runs ∧ st = Impl.calcStats runs := by
  unfold Impl.runTests Impl.getTestFiles
  cases hl : w.lstat (Impl.targetPath w path) with
  | none => simp
  | some n =>
    simp only [Option.some.injEq, exists_eq_left']
    by_cases he : Impl.walk n (Impl.targetPath w path) = []
    · simp [he]
    · simp only [List.isEmpty_iff, he, if_false, ne_eq, not_false_eq_true, true_and]
      cases hr : Impl.runFiles (Impl.walk n (Impl.targetPath w path)) with
      | error e => simp
      | ok rs =>
        simp only [Run.reported.injEq, Except.ok.injEq]
        constructor
        · rintro ⟨rfl, rfl⟩; exact ⟨rfl, rfl⟩
        · rintro ⟨rfl, rfl⟩; exact ⟨rfl, rfl⟩


/-! ### on clean trees the transliteration computes the specified run -/

/-- plain attribute names and canonical leaf representations -/
def Clean (t : Tree) : Prop := namesOk t = true ∧ ∀ pl ∈ leaves t, pl.2.canonical = true

theorem noUnit_of_clean {t : Tree} (h : Clean t) : noUnit t := by
  intro pl hpl e
  have := h.2 pl hpl
  rw [e] at this
  cases this

theorem resultsOf_clean {t : Tree} (h : namesOk t = true) (path : Name) :
    resultsOf t = (Spec.fileRun path t).results := by
  simp [resultsOf, Spec.fileRun, foreachLeaf_root t h, List.map_map, Function.comp_def, labO, labR]

theorem runFile_clean (f : TestFile) (h : ∀ t, f.content = some t → Clean t) :
    Impl.runFile f = match f.content with
      | none => .error (.file f.path)
      | some t => if t.evaluates then .ok (Spec.fileRun f.path t) else .error (.file f.path) := by
  cases hc : f.content with
  | none => simp [Impl.runFile, hc]
  | some t =>
    have hcl := h t hc
    by_cases he : t.evaluates = true
    · have := (runFile_ok_iff f (runOf f)).2 ⟨⟨t, hc, he, noUnit_of_clean hcl⟩, rfl⟩
      rw [this]
      simp only [he, if_true, runOf, hc, resultsOf_clean hcl.1 f.path]
      rfl
    · have he' : t.evaluates = false := by simpa using he
      simp [Impl.runFile, hc, runExpr_error_of_fails t he', he']

theorem runFiles_clean (fs : List TestFile) (h : ∀ f ∈ fs, ∀ t, f.content = some t → Clean t) :
    Impl.runFiles fs = match Spec.firstBad fs with
      | some p => .error (.file p)
      | none => .ok (Spec.runsOf fs) := by
  induction fs with
  | nil => simp [Impl.runFiles, Spec.firstBad, Spec.runsOf]
  | cons f r ih =>
    have ih' := ih (fun g hg => h g (by simp [hg]))
    rw [Impl.runFiles, runFile_clean f (h f (by simp))]
    cases hc : f.content with
    | none => simp [Spec.firstBad, hc]
    | some t =>
      by_cases he : t.evaluates = true
      · simp only [he, if_true, Spec.firstBad, hc, Spec.runsOf]
        rw [ih']
        cases Spec.firstBad r <;> simp
      · have he' : t.evaluates = false := by simpa using he
        simp [Spec.firstBad, hc, he']


/-! ### the verdict -/

theorem outcome_of_result {t : Tree} {r : Result} (h : r ∈ resultsOf t) :
    ∃ pl ∈ leaves t, r.outcome = Spec.outcome pl.2 := by
  have : r.outcome ∈ (resultsOf t).map (·.outcome) := List.mem_map.2 ⟨r, h, rfl⟩
  rw [resultsOf_outcomes] at this
  obtain ⟨pl, hpl, e⟩ := List.mem_map.1 this
  exact ⟨pl, hpl, e.symm⟩

theorem result_of_leaf {t : Tree} {pl : Path × Leaf} (h : pl ∈ leaves t) :
    ∃ r ∈ resultsOf t, r.outcome = Spec.outcome pl.2 := by
  have : Spec.outcome pl.2 ∈ (leaves t).map (fun pl => Spec.outcome pl.2) := List.mem_map.2 ⟨pl, h, rfl⟩
  rw [← resultsOf_outcomes] at this
  obtain ⟨r, hr, e⟩ := List.mem_map.1 this
  exact ⟨r, hr, e⟩

theorem evaluates_iff (t : Tree) : t.evaluates = true ↔ ∀ pl ∈ leaves t, pl.2 ≠ .fails := by
  simp [Tree.evaluates, List.all_eq_true]

/-- the list of files passes: all compile and every leaf is the literal true -/
def AllTrue (fs : List TestFile) : Prop :=
  ∀ f ∈ fs, ∃ t, f.content = some t ∧ ∀ pl ∈ leaves t, pl.2 = .trueSet

theorem files_pass_iff (fs : List TestFile) :
    (∃ runs, Impl.runFiles fs = .ok runs ∧ (Impl.calcStats runs).runFailed = false) ↔ AllTrue fs := by
  constructor
  · rintro ⟨runs, hr, hs⟩ f hf
    obtain ⟨hall, rfl⟩ := (runFiles_ok_iff fs runs).1 hr
    obtain ⟨t, hc, _, hnu⟩ := hall f hf
    refine ⟨t, hc, fun pl hpl => ?_⟩
    obtain ⟨r, hr', ho⟩ := result_of_leaf hpl
    have hmem : runOf f ∈ fs.map runOf := List.mem_map.2 ⟨f, hf, rfl⟩
    have hres : r ∈ (runOf f).results := by simpa [runOf, hc] using hr'
    have hnot : ¬ (r.outcome = .failed ∨ r.outcome = .invalid) := fun hbad => by
      have := (calcStats_runFailed (fs.map runOf)).2 ⟨_, hmem, r, hres, hbad⟩
      rw [hs] at this; cases this
    have hni := outcome_ne_ignored pl.2
    rw [← ho] at hni
    have hp : r.outcome = .passed := by
      cases hro : r.outcome <;> simp_all
    rw [ho] at hp
    exact (outcome_passed_iff pl.2 (hnu pl hpl)).1 hp
  · intro h
    have hgood : ∀ f ∈ fs, GoodFile f := fun f hf => by
      obtain ⟨t, hc, hall⟩ := h f hf
      refine ⟨t, hc, (evaluates_iff t).2 (fun pl hpl e => ?_), fun pl hpl e => ?_⟩
      · rw [hall pl hpl] at e; cases e
      · rw [hall pl hpl] at e; cases e
    refine ⟨fs.map runOf, (runFiles_ok_iff fs _).2 ⟨hgood, rfl⟩, ?_⟩
    cases hrf : (Impl.calcStats (fs.map runOf)).runFailed with
    | false => rfl
    | true =>
      obtain ⟨fr, hfr, r, hr, hbad⟩ := (calcStats_runFailed _).1 hrf
      obtain ⟨f, hf, rfl⟩ := List.mem_map.1 hfr
      obtain ⟨t, hc, hall⟩ := h f hf
      have hres : r ∈ resultsOf t := by simpa [runOf, hc] using hr
      obtain ⟨pl, hpl, ho⟩ := outcome_of_result hres
      rw [hall pl hpl] at ho
      rw [ho] at hbad
      simp [Spec.outcome, Leaf.isTrue] at hbad

theorem passed_iff (w : World) (path : Name) :
    (Impl.runTests w path).passed = true ↔
      ∃ n, w.lstat (Impl.targetPath w path) = some n ∧ Impl.walk n (Impl.targetPath w path) ≠ [] ∧
        AllTrue (Impl.walk n (Impl.targetPath w path)) := by
  constructor
  · intro h
    cases hr : Impl.runTests w path with
    | error e => rw [hr] at h; cases h
    | reported runs st =>
      rw [hr] at h
      obtain ⟨n, hl, hne, hruns, hst⟩ := (runTests_reported_iff w path runs st).1 hr
      refine ⟨n, hl, hne, (files_pass_iff _).1 ⟨runs, hruns, ?_⟩⟩
      rw [← hst]
      simpa [Run.passed] using h
  · rintro ⟨n, hl, hne, hall⟩
    obtain ⟨runs, hruns, hs⟩ := (files_pass_iff _).2 hall
    have := (runTests_reported_iff w path runs (Impl.calcStats runs)).2 ⟨n, hl, hne, hruns, rfl⟩
    rw [this]
    simp [Run.passed, hs]

/-! ### the counts are the numbers of leaves -/

theorem cnt_eq (o : Outcome) (rs : List Result) :
    cnt o rs = ((rs.map (·.outcome)).filter (fun x => x = o)).length := by
  induction rs with
  | nil => simp [cnt]
  | cons r rs ih =>
    rw [cnt_cons, ih]
    by_cases h : r.outcome = o <;> simp [h] <;> omega

theorem runOf_outcomes {f : TestFile} (h : GoodFile f) :
    (runOf f).results.map (·.outcome) = Spec.leafOutcomes f := by
  obtain ⟨t, hc, _, _⟩ := h
  simp [runOf, Spec.leafOutcomes, hc, resultsOf_outcomes]

theorem countOutcome_runs (o : Outcome) (fs : List TestFile) (h : ∀ f ∈ fs, GoodFile f) :
    countOutcome o (fs.map runOf) = (((fs.map Spec.leafOutcomes).flatten).filter (fun x => x = o)).length := by
  induction fs with
  | nil => simp [countOutcome]
  | cons f r ih =>
    rw [List.map_cons, countOutcome_cons, ih (fun g hg => h g (by simp [hg])), cnt_eq,
      runOf_outcomes (h f (by simp))]
    simp

theorem total_runs (fs : List TestFile) (h : ∀ f ∈ fs, GoodFile f) :
    ((fs.map runOf).map (fun f => f.results.length)).sum = ((fs.map Spec.leafOutcomes).flatten).length := by
  induction fs with
  | nil => simp
  | cons f r ih =>
    have e := congrArg List.length (runOf_outcomes (h f (by simp)))
    simp only [List.length_map] at e
    simp only [List.map_cons, List.sum_cons, List.flatten_cons, List.length_append]
    rw [ih (fun g hg => h g (by simp [hg])), e]

theorem no_ignored (l : List Outcome) (h : ∀ x ∈ l, x ≠ Outcome.ignored) :
    (l.filter (fun x => x = Outcome.ignored)).length = 0 := by
  rw [List.length_eq_zero_iff, List.filter_eq_nil_iff]
  intro x hx
  simpa using h x hx

theorem leafOutcomes_ne_ignored (fs : List TestFile) :
    ∀ x ∈ (fs.map Spec.leafOutcomes).flatten, x ≠ Outcome.ignored := by
  intro x hx
  obtain ⟨l, hl, hxl⟩ := List.mem_flatten.1 hx
  obtain ⟨f, _, rfl⟩ := List.mem_map.1 hl
  unfold Spec.leafOutcomes at hxl
  cases hc : f.content with
  | none => simp [hc] at hxl
  | some t =>
    simp only [hc, List.mem_map] at hxl
    obtain ⟨pl, _, rfl⟩ := hxl
    exact outcome_ne_ignored pl.2

/-! ### the panic of isLiteralTrue is unreachable on canonical values -/

theorem runFiles_crash {fs : List TestFile} (h : Impl.runFiles fs = .error .crash) :
    ∃ f ∈ fs, ∃ t, f.content = some t ∧ ¬ noUnit t := by
  induction fs with
  | nil => simp [Impl.runFiles] at h
  | cons f r ih =>
    simp only [Impl.runFiles] at h
    cases hf : Impl.runFile f with
    | error e =>
      rw [hf] at h
      simp only [Except.error.injEq] at h
      subst h
      unfold Impl.runFile at hf
      cases hc : f.content with
      | none => simp [hc] at hf
      | some t =>
        simp only [hc] at hf
        cases hr : Impl.runExpr t with
        | ok rs => simp [hr] at hf
        | error e =>
          cases e with
          | crash => exact ⟨f, by simp, t, hc, ((runExpr_crash_iff t).1 hr).2⟩
          | _ => simp [hr] at hf
    | ok fr =>
      rw [hf] at h
      cases hr : Impl.runFiles r with
      | error e =>
        rw [hr] at h
        simp only [Except.error.injEq] at h
        subst h
        obtain ⟨g, hg, t, hc, hn⟩ := ih hr
        exact ⟨g, by simp [hg], t, hc, hn⟩
      | ok frs => rw [hr] at h; cases h


/-! ### repeated dictionary keys: every (key, value) pair is a member -/

mutual
theorem reaches_of_mem (t : Tree) (p : Path) (l : Leaf) (h : (p, l) ∈ leaves t) : Reaches t p (.leaf l) := by
  cases t with
  | leaf l' => simp [leaves] at h; rw [h.1, h.2]; exact Reaches.here
  | tup as =>
    simp only [leaves] at h
    obtain ⟨n, c, p', rfl, hm, hr⟩ := reachesAttrs_of_mem as p l h
    exact Reaches.attr hm hr
  | arr off items =>
    simp only [leaves] at h
    obtain ⟨i, c, p', rfl, hm, hr, _⟩ := reachesItems_of_mem items off p l h
    exact Reaches.idx hm hr
  | dict es =>
    simp only [leaves] at h
    obtain ⟨k, c, p', rfl, hm, hr⟩ := reachesEntries_of_mem es p l h
    exact Reaches.key hm hr
theorem reachesAttrs_of_mem (as : List (Name × Tree)) (p : Path) (l : Leaf) (h : (p, l) ∈ leavesAttrs as) :
    ∃ n c p', p = .attr n :: p' ∧ (n, c) ∈ as ∧ Reaches c p' (.leaf l) := by
  cases as with
  | nil => simp [leavesAttrs] at h
  | cons a r =>
    obtain ⟨m, t⟩ := a
    simp only [leavesAttrs, List.mem_append] at h
    rcases h with h | h
    · obtain ⟨p', rfl, hm⟩ := mem_map_pre.1 h
      exact ⟨m, t, p', rfl, by simp, reaches_of_mem t p' l hm⟩
    · obtain ⟨n, c, p', hp, hm, hr⟩ := reachesAttrs_of_mem r p l h
      exact ⟨n, c, p', hp, by simp [hm], hr⟩
theorem reachesItems_of_mem (items : List (Option Tree)) (j : Int) (p : Path) (l : Leaf)
    (h : (p, l) ∈ leavesItems items j) :
    ∃ i c p', p = .idx i :: p' ∧ lookupItem i items j = some c ∧ Reaches c p' (.leaf l) ∧ j ≤ i := by
  cases items with
  | nil => simp [leavesItems] at h
  | cons a r =>
    cases a with
    | none =>
      simp only [leavesItems] at h
      obtain ⟨i, c, p', hp, h1, h2, hi⟩ := reachesItems_of_mem r (j + 1) p l h
      have hne : i ≠ j := by omega
      exact ⟨i, c, p', hp, by simp [lookupItem, hne, h1], h2, by omega⟩
    | some t =>
      simp only [leavesItems, List.mem_append] at h
      rcases h with h | h
      · obtain ⟨p', rfl, hm⟩ := mem_map_pre.1 h
        exact ⟨j, t, p', rfl, by simp [lookupItem], reaches_of_mem t p' l hm, by omega⟩
      · obtain ⟨i, c, p', hp, h1, h2, hi⟩ := reachesItems_of_mem r (j + 1) p l h
        have hne : i ≠ j := by omega
        exact ⟨i, c, p', hp, by simp [lookupItem, hne, h1], h2, by omega⟩
theorem reachesEntries_of_mem (es : List (Key × Tree)) (p : Path) (l : Leaf) (h : (p, l) ∈ leavesEntries es) :
    ∃ k c p', p = .key k :: p' ∧ (k, c) ∈ es ∧ Reaches c p' (.leaf l) := by
  cases es with
  | nil => simp [leavesEntries] at h
  | cons a r =>
    obtain ⟨m, t⟩ := a
    simp only [leavesEntries, List.mem_append] at h
    rcases h with h | h
    · obtain ⟨p', rfl, hm⟩ := mem_map_pre.1 h
      exact ⟨m, t, p', rfl, by simp, reaches_of_mem t p' l hm⟩
    · obtain ⟨n, c, p', hp, hm, hr⟩ := reachesEntries_of_mem r p l h
      exact ⟨n, c, p', hp, by simp [hm], hr⟩
end

mutual
theorem mem_of_reaches (t : Tree) (p : Path) (l : Leaf) (h : Reaches t p (.leaf l)) : (p, l) ∈ leaves t := by
  cases t with
  | leaf l' =>
    cases h with
    | here => simp [leaves]
  | tup as =>
    cases h with
    | attr hm hr => exact memAttrs_of_reaches as _ _ _ l hm hr
  | arr off items =>
    cases h with
    | idx hm hr => exact memItems_of_reaches items off _ _ _ l hm hr
  | dict es =>
    cases h with
    | key hm hr => exact memEntries_of_reaches es _ _ _ l hm hr
theorem memAttrs_of_reaches (as : List (Name × Tree)) (n : Name) (c : Tree) (p : Path) (l : Leaf)
    (hm : (n, c) ∈ as) (hr : Reaches c p (.leaf l)) : (Step.attr n :: p, l) ∈ leavesAttrs as := by
  cases as with
  | nil => simp at hm
  | cons a r =>
    obtain ⟨m, t⟩ := a
    simp only [leavesAttrs, List.mem_append]
    rcases List.mem_cons.1 hm with e | hm'
    · simp only [Prod.mk.injEq] at e
      rw [e.2] at hr
      exact Or.inl (List.mem_map.2 ⟨(p, l), mem_of_reaches t p l hr, by simp [pre, e.1]⟩)
    · exact Or.inr (memAttrs_of_reaches r n c p l hm' hr)
theorem memItems_of_reaches (items : List (Option Tree)) (j i : Int) (c : Tree) (p : Path) (l : Leaf)
    (hm : lookupItem i items j = some c) (hr : Reaches c p (.leaf l)) :
    (Step.idx i :: p, l) ∈ leavesItems items j := by
  cases items with
  | nil => simp [lookupItem] at hm
  | cons a r =>
    simp only [lookupItem] at hm
    by_cases hij : i = j
    · simp [hij] at hm
      cases a with
      | none => cases hm
      | some t =>
        have e : t = c := by simpa using hm
        rw [← e] at hr
        simp only [leavesItems, List.mem_append]
        exact Or.inl (List.mem_map.2 ⟨(p, l), mem_of_reaches t p l hr, by simp [pre, hij]⟩)
    · simp [hij] at hm
      have ih := memItems_of_reaches r (j + 1) i c p l hm hr
      cases a with
      | none => simpa [leavesItems] using ih
      | some t => simp only [leavesItems, List.mem_append]; exact Or.inr ih
theorem memEntries_of_reaches (es : List (Key × Tree)) (k : Key) (c : Tree) (p : Path) (l : Leaf)
    (hm : (k, c) ∈ es) (hr : Reaches c p (.leaf l)) : (Step.key k :: p, l) ∈ leavesEntries es := by
  cases es with
  | nil => simp at hm
  | cons a r =>
    obtain ⟨m, t⟩ := a
    simp only [leavesEntries, List.mem_append]
    rcases List.mem_cons.1 hm with e | hm'
    · simp only [Prod.mk.injEq] at e
      rw [e.2] at hr
      exact Or.inl (List.mem_map.2 ⟨(p, l), mem_of_reaches t p l hr, by simp [pre, e.1]⟩)
    · exact Or.inr (memEntries_of_reaches r k c p l hm' hr)
end

/-- the leaves of a dictionary: entry by entry, the leaves of the value under the key's step —
whether or not keys repeat -/
theorem leavesEntries_flatMap (es : List (Key × Tree)) :
    leavesEntries es = es.flatMap (fun e => (leaves e.2).map (pre (.key e.1))) := by
  induction es with
  | nil => simp [leavesEntries]
  | cons a r ih =>
    obtain ⟨k, t⟩ := a
    simp [leavesEntries, ih]

end Arrai.C20
