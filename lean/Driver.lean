/-
  driver: `driver gen <Cxx> <seed> <n> <quick|thorough>` prints one case per line
  (id, class, kind, stratum, model observable, spec observable, payload…; tab separated).
  Core-only: links without Mathlib.
-/
import Arrai.C14.Gen

open Arrai

def genFor (prop : String) (seed n : Nat) (thorough : Bool) : Option (List Case) :=
  match prop with
  | "C14" => some (C14.gen seed n thorough)
  | _ => none

def main (args : List String) : IO UInt32 := do
  match args with
  | ["gen", prop, seed, n, tier] =>
    match genFor prop seed.toNat! n.toNat! (tier == "thorough") with
    | some cs =>
      let out ← IO.getStdout
      for c in cs do
        out.putStrLn c.line
      out.flush
      pure 0
    | none =>
      IO.eprintln s!"unknown property {prop}"
      pure 2
  | _ =>
    IO.eprintln "usage: driver gen <Cxx> <seed> <n> <quick|thorough>"
    pure 2
