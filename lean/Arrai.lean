import Arrai.Facts.Generated
import Arrai.Proofs.C14
